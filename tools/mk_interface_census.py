"""One-off generator of /verif/interface_census.json (the pinned interface for C05-I3).

Observes dtype.names for every census class and every point dimension its pools exercise, then applies
the documented overrides below.  The output is committed and reviewed; checks never regenerate it.
"""
import json, random
from sim.env import ensure_env; ensure_env()
from sim import batch, world, templates as T, gen, ops as OPS
batch.init_world()
OVERRIDE = {
 # documented order: position first (the pinned tree returned it last: C05 finding, fixed)
 "exactpack.solvers.sdrz.sdrz.SteadyDetonationReactionZone": {"1": ["position", "pressure", "velocity", "density", "sound_speed", "reaction_progress", "position_relative"]},
 # heavy constructors: transcribed from the names=[...] literals in nED_radshocks.py
 "exactpack.solvers.radshocks.nED_radshocks.ED_Solver": {"1": ["position", "temperature", "density", "velocity", "pressure", "specific_internal_energy", "rade", "sound_speed"]},
 "exactpack.solvers.radshocks.nED_radshocks.Sn_Solver": {"1": ["position", "temperature_mat", "temperature_rad", "density", "velocity", "pressure", "specific_internal_energy", "rade", "sound_speed", "VEF"]},
}
def probe(q):
    cls = world.CENSUS[q]; fam, usable = T.pool_for(q, cls)
    g = gen.Gen(random.Random(1), [fam], dict(gen.BASE_CFG, n_choices=[3], bb_setters=0.0, share_eos=0, share_ic=0, explicit_ic=0, plain_container=1.0, refill=0))
    got = {}
    for pi, kw in usable:
        g.ops = []; g.objs = []
        st = g.new_op(0, fam, qual=q, pi=pi)
        pts, t, lay = g.request_points(st, n=3, v=0)
        g.call_op(0, st, pts, t, lay, cont="nd")
        o = OPS.run_history({"ops": g.ops, "faults": [], "run": {}})["log"][-1]["out"]
        if o[0] == "ok":
            dim = 1 if lay == "N" else (pts.shape[1] if lay == "Nd" else 2)
            got.setdefault(str(dim), list(o[1]))
    return got
out = {}
for q in sorted(world.CENSUS):
    if q in OVERRIDE:
        out[q] = OVERRIDE[q]; continue
    r = world.infork(lambda: probe(q))
    out[q] = r[1] if r[0] == "ok" else {}
# classes that cannot be constructed at any pool entry inherit the entry of their module's base class
for q in sorted(out):
    if not out[q]:
        mod = q.rsplit(".", 1)[0]
        sib = [k for k in sorted(out) if k.rsplit(".", 1)[0] == mod and out[k]]
        out[q] = dict(out[sib[0]]) if sib else {}
        print("inherited", q, "<-", sib[:1])
json.dump({"comment": "pinned interface: field names per class and point dimension (C05-I3); see tools/mk_interface_census.py", "classes": out},
          open("/verif/interface_census.json", "w"), indent=1, sort_keys=True)
print(len(out), "classes;", sum(1 for v in out.values() if not v), "empty")
