#!/usr/bin/env python3
"""Build /verif/mutants/<name>/{patch.diff,meta.json} from the edit list below (sensitivity set, DESIGN.md §5.2).

Usage: tools/mk_mutants.py <scratch worktree of /repo> [name ...]
Each edit is applied to the clean worktree, diffed, validated against the named test files of the unedited
suite (a mutant the suite already sees is recorded as not admitted), and reverted.
"""
import json
import os
import subprocess
import sys

HERE = os.path.dirname(os.path.dirname(os.path.abspath(__file__)))

M = []


def mut(name, prop, file, old, new, what, needs, tests, only, expect=""):
    M.append(dict(name=name, prop=prop, file=file, old=old, new=new, what=what, needs=needs, tests=tests, only=only, expect=expect))


mut("sedov_shock_radius_cached", "C06", "exactpack/solvers/sedov/sedov.py",
    """        self.r2 = (self.eblast/(self.alpha*self.rho0))**(1.0/self.xg2) *\\
            t**(2.0/self.xg2)
""",
    """        if getattr(self, '_r2_time', None) is None:
            self._r2_time = t     # shock radius is computed once per solver object
        self.r2 = (self.eblast/(self.alpha*self.rho0))**(1.0/self.xg2) *\\
            self._r2_time**(2.0/self.xg2)
""",
    "Sedov._run takes the shock radius from the time of the object's first call",
    "a second call on the same solver object at a different time", ["test_sedov.py"], "sedov", "H1")

mut("blake_moduli_from_class_dict", "C06", "exactpack/solvers/blake/blake.py",
    """        plda = self.lame_mod
        pg = self.shear_mod
""",
    """        plda = self.elas_param_values['lame_mod']
        pg = self.elas_param_values['shear_mod']
""",
    "Blake._run reads two moduli from the class-level elas_param_values dict that every constructor updates",
    "two Blake objects with different moduli; call the first after constructing the second", ["test_blake.py"], "blake", "H1")

mut("rod1d_shared_mode_workspace", "C06", "exactpack/solvers/heat/rod1d.py",
    """        self.kn = np.zeros(shape=self.Nsum)
        self.An = np.zeros(shape=self.Nsum)
        self.Bn = np.zeros(shape=self.Nsum)
""",
    """        # reuse the mode work arrays between solvers with the same number of terms
        ws = Rod1D._workspace.setdefault(self.Nsum, (np.zeros(shape=self.Nsum), np.zeros(shape=self.Nsum),
                                                     np.zeros(shape=self.Nsum)))
        self.kn, self.An, self.Bn = ws
""",
    "Rod1D keeps its mode arrays in a class-level workspace keyed by Nsum (shared, never re-zeroed)",
    "two live Rod1D objects with the same Nsum and different boundary conditions", ["test_heat.py"], "rod1d", "H1",
    )
M[-1]["extra"] = ("    alpha2 = 1.0\n    beta2 = 0.0\n    gamma2 = 0.0\n", "    alpha2 = 1.0\n    beta2 = 0.0\n    gamma2 = 0.0\n    _workspace = {}\n")

mut("noh_memo_on_id_of_points", "C06", "exactpack/solvers/noh/noh1.py",
    """    def _run(self, r, t):
""",
    """    def _run(self, r, t):
        key = (id(r), len(r), t)
        hit = self.__dict__.setdefault('_memo', {}).get(key)
        if hit is not None:
            return hit
        sol = self._run_uncached(r, t)
        self._memo[key] = sol
        return sol

    def _run_uncached(self, r, t):
""",
    "Noh memoises its solution on id(points): a refilled ndarray (same object, new values) returns the old solution, and two returned solutions alias",
    "the caller refills the same ndarray object with new points and calls again (caller aliasing F5)", ["test_noh.py"], "noh", "H1/H2")

mut("suolson_nonatomic_memo", "C06", "exactpack/solvers/suolson/timmes.py",
    """def usolution(posx_in, tau_in, epsilon_in):
    \"\"\"computes the u solution""",
    """_usolution_memo = {}


def usolution(posx_in, tau_in, epsilon_in):
    key = (posx_in, tau_in, epsilon_in)
    if key in _usolution_memo:
        return _usolution_memo[key]
    _usolution_memo[key] = 0.0     # reserve the slot; filled in below
    out = _usolution_compute(posx_in, tau_in, epsilon_in)
    _usolution_memo[key] = out
    return out


def _usolution_compute(posx_in, tau_in, epsilon_in):
    \"\"\"computes the u solution""",
    "Su-Olson usolution gets a module-level memo with a complete key, but the slot is reserved (0.0) before the value is computed",
    "a dependency failure or an abort inside usolution (F2/F3), then the same evaluation again", ["test_suolson.py"], "suolson", "H1 after fault")

mut("print_when_verbose_fd_leak", "C06", "exactpack/base.py",
    """            with open(os.devnull, 'w') as f, redirect_stdout(f):
                result = method(cls, *args, **kwargs)
""",
    """            f = open(os.devnull, 'w')
            _null_files.append(f)      # keep the sink alive while stdout is redirected
            with redirect_stdout(f):
                result = method(cls, *args, **kwargs)
""",
    "print_when_verbose no longer closes its os.devnull handle (kept in a module list): one descriptor leaks per decorated call",
    "enough decorated calls in one process to exhaust descriptors (RLIMIT_NOFILE lowered: fault F4)", ["test_blake.py", "test_rmtv.py"],
    "blake,riemann_ig,rmtv,riemann2d", "H1 (OSError where the fresh call succeeds)")
M[-1]["extra"] = ("def print_when_verbose(method):\n", "_null_files = []\n\n\ndef print_when_verbose(method):\n")

mut("ep_piston_quiescent_left_uninitialised", "C06", "exactpack/solvers/ep_piston/ep_piston.py",
    """            else:
                vel = 0.
                p = 0.
                e = 0.
                rho = self.rho0
                sdev = 0.
""",
    """            else:
                # undisturbed material ahead of the elastic wave: only the density is non-zero
                rho_x[i] = self.rho0
                continue
""",
    "EPpiston leaves velocity/pressure/energy/stress of the undisturbed region in np.empty_like memory instead of writing zeros",
    "an allocator that returns non-zero memory (dirty allocation fault F7, or simply a long-running process)", ["test_ep_piston.py"], "ep_piston", "H1 under F7")

mut("call_sorts_points_in_place", "C05", "exactpack/base.py",
    """        if r.dtype.kind in 'iu':
            r = r.astype(float)

        return self._run(r, t)
""",
    """        if r.dtype.kind in 'iu':
            r = r.astype(float)

        if r.ndim == 1 and r.flags.writeable:
            r.sort()       # the solvers expect monotone positions
        return self._run(r, t)
""",
    "ExactSolver.__call__ sorts 1-D ndarray input in place (lists/tuples are copied first, so only ndarrays are affected)",
    "an unsorted writable ndarray request", ["test_noh.py", "test_sedov.py", "test_blake.py"], "noh,blake,cog1", "I5/I2/I4")

mut("dump_15_significant_digits", "C05", "exactpack/base.py",
    """            writer.writerows(self)
""",
    """            writer.writerows([['%.15g' % v if isinstance(v, float) else v for v in row]
                              for row in self])
""",
    "ExactSolution.dump formats floats with 15 significant digits (not always round-trip exact)",
    "a value whose shortest round-trip representation needs 16-17 digits", ["test_noh.py"], "noh,cog1,blake", "I6")

mut("dump_swallows_oserror", "C05", "exactpack/base.py",
    """        with open(filename, 'w') as csvfile:
            writer = csv.writer(csvfile)

            writer.writerow(self.dtype.names)
            writer.writerows(self)
""",
    """        try:
            with open(filename, 'w') as csvfile:
                writer = csv.writer(csvfile)

                writer.writerow(self.dtype.names)
                writer.writerows(self)
        except OSError as err:
            warn("could not write {}: {}".format(filename, err))
""",
    "ExactSolution.dump turns an I/O error into a warning and returns normally",
    "a stream fault while dumping (ENOSPC/EIO on write, flush or close; open failing)", ["test_noh.py"], "noh,cog1,blake", "I7")

mut("noh2_velocity_pressure_swapped", "C05", "exactpack/solvers/noh2/noh2.py", None, None,
    "Noh2 returns its fields in a different order (two adjacent names and arrays swapped consistently)",
    "nothing special: any call (tests access fields by name only)", ["test_noh2.py"], "noh2", "I3")


def sh(cmd, cwd):
    return subprocess.run(cmd, cwd=cwd, capture_output=True, text=True)


def main():
    wt = os.path.abspath(sys.argv[1])
    only = set(sys.argv[2:])
    assert sh(["git", "status", "--porcelain"], wt).stdout.strip() == "", "worktree not clean"
    for m in M:
        if only and m["name"] not in only:
            continue
        path = os.path.join(wt, m["file"])
        src = open(path).read()
        if m["name"] == "noh2_velocity_pressure_swapped":
            import re
            mm = re.search(r"names=\[([^\]]*)\]", src)
            print("noh2 names literal:", mm.group(0)[:200] if mm else None)
            # handled by hand below
            a = "'velocity',"
            if src.count("velocity") and src.count("pressure"):
                pass
            new_src = noh2_swap(src)
        else:
            assert src.count(m["old"]) == 1, (m["name"], "old text occurs %d times" % src.count(m["old"]))
            new_src = src.replace(m["old"], m["new"])
            if m.get("extra"):
                a, b = m["extra"]
                assert new_src.count(a) == 1, (m["name"], "extra anchor")
                new_src = new_src.replace(a, b)
        open(path, "w").write(new_src)
        diff = sh(["git", "diff"], wt).stdout
        d = os.path.join(HERE, "mutants", m["name"])
        os.makedirs(d, exist_ok=True)
        open(os.path.join(d, "patch.diff"), "w").write(diff)
        t = sh(["/venv/bin/python", "-m", "pytest", "-q", "-p", "no:cacheprovider", "-x"] + ["exactpack/tests/" + x for x in m["tests"]], wt)
        tail = t.stdout.strip().splitlines()[-1] if t.stdout.strip() else t.stderr[-200:]
        admitted = t.returncode == 0
        meta = {"property": m["prop"], "what": m["what"], "needs_to_manifest": m["needs"], "file": m["file"], "only": m["only"],
                "expected_detector": m["expect"], "origin": "hand-written from DESIGN.md §5.2",
                "suite_check": {"files": m["tests"], "result": tail, "admitted": admitted}}
        json.dump(meta, open(os.path.join(d, "meta.json"), "w"), indent=1)
        sh(["git", "checkout", "--", "."], wt)
        print("%-42s %s  (%s)" % (m["name"], "admitted" if admitted else "NOT ADMITTED", tail))


def noh2_swap(src):
    """Swap the 2nd and 3rd returned fields of Noh2 consistently (arrays and names)."""
    import re
    m = re.search(r"return ExactSolution\(\[(.*?)\],\s*names=\[(.*?)\]", src, re.S)
    arrs = [x.strip() for x in m.group(1).split(",")]
    names = [x.strip() for x in m.group(2).split(",")]
    arrs[1], arrs[2] = arrs[2], arrs[1]
    names[1], names[2] = names[2], names[1]
    new = "return ExactSolution([" + ", ".join(arrs) + "],\n                             names=[" + ",\n                                    ".join(names) + "]"
    return src[:m.start()] + new + src[m.end():]


if __name__ == "__main__":
    main()
