#!/usr/bin/env python3
"""Import a change written by a seeding sub-agent into /verif/seeded/<id>/.
Usage: tools/import_seeded.py <agent out dir>/<id> <property> <origin text> [--only fam1,fam2]
Copies patch.diff / demo.py / README.md, makes demo.py take the tree under test as argv[1]
(the convention of tools/verify_seeded.py), writes a meta.json skeleton.  Verification is a separate step."""
import json, os, shutil, sys

HERE = os.path.dirname(os.path.dirname(os.path.abspath(__file__)))


def main():
    src, prop, origin = sys.argv[1], sys.argv[2], sys.argv[3]
    only = sys.argv[sys.argv.index("--only") + 1] if "--only" in sys.argv else None
    sid = os.path.basename(src.rstrip("/"))
    dst = os.path.join(HERE, "seeded", sid)
    os.makedirs(dst, exist_ok=True)
    shutil.copy(os.path.join(src, "patch.diff"), os.path.join(dst, "patch.diff"))
    if os.path.exists(os.path.join(src, "README.md")):
        shutil.copy(os.path.join(src, "README.md"), os.path.join(dst, "README.md"))
    demo = open(os.path.join(src, "demo.py")).read()
    head = "import sys; sys.path.insert(0, sys.argv[1]) if len(sys.argv) > 1 else None\n"
    if demo.startswith("#!"):
        first, rest = demo.split("\n", 1)
        demo = first + "\n" + head + rest
    else:
        demo = head + demo
    open(os.path.join(dst, "demo.py"), "w").write(demo)
    readme = open(os.path.join(src, "README.md")).read() if os.path.exists(os.path.join(src, "README.md")) else ""
    meta = {"property": prop, "what": readme.strip().splitlines()[0][:200] if readme.strip() else sid,
            "needs_to_manifest": "see README.md", "origin": origin}
    if only:
        meta["only"] = only
    json.dump(meta, open(os.path.join(dst, "meta.json"), "w"), indent=1)
    print("imported", sid)


if __name__ == "__main__":
    main()
