#!/usr/bin/env python3
"""Regenerate MANIFEST.json from one place (keeps it schema-valid and the N/A list current)."""
import json, os, sys
HERE = os.path.dirname(os.path.dirname(os.path.abspath(__file__)))
PY = "/venv/bin/python"

NA = {
 "C01": "PDE residual of a pure function of (parameters, r, t); nothing in it depends on a schedule, clock, fault or history, so a simulator would only be input generation with an analytic oracle (a different technique)",
 "C02": "jump conditions relate values of independent pure calls at x_s+-delta, t+-dt; no state, I/O, fault or interleaving enters",
 "C03": "relation between fields of one returned record; a pure function of the call's inputs",
 "C04": "integral of one returned profile against closed-form fluxes; quantified over inputs/configurations only",
 "C07": "equality of two independent pure calls; their only coupling is shared process state, which is C06 (claimed)",
 "C08": "scaling relation between two pure calls; no schedule, clock or fault in it",
 "C09": "symmetry relation between pure calls",
 "C10": "similarity relation between pure calls at two physical times (t is an argument, not a clock)",
 "C11": "volume integrals of one returned profile",
 "C12": "travelling-wave relation in the argument t and flux sums along a stored profile; no clock is read; the shared function table is covered by C06",
 "C13": "eikonal/causality of a pure burn-time field",
 "C14": "PDE/boundary/initial residuals of a pure series solution",
 "C15": "identities among fields of one call and among moduli computed from constructor kwargs (the class-level dict is covered by C06)",
 "C16": "algebraic identities of pure EOS closures and Jacobians; the shared Newton object is covered by C06",
 "C17": "sign/monotonicity of one returned profile",
 "C18": "PDE residual of a pure (x, t) function",
 "C19": "algebraic relations among fields of one call",
 "C20": "an enumerable catalogue of parameter restrictions x boundary values: static input enumeration; failing operations are used as faults in the C06 runs, but whether the right inputs fail is an input question",
}

def check(pid, mod, text, note, technique, ref):
    return {
        "property_id": pid,
        "quick_cmd": f"{PY} -m checks.{mod} --tier quick",
        "thorough_cmd": f"{PY} -m checks.{mod} --tier thorough",
        "evidence_file": f"/verif/evidence/{pid}.json",
        "replay_cmd_template": f"{PY} -m checks.{mod} --replay {{path}}",
        "engine": "sim",
        "level_claimed": {"category": "exploration", "text": text, "design_ref": ref},
        "level_note": note,
        "technique": technique,
    }

def build(claimed):
    checks = []
    if "C06" in claimed:
        checks.append(check("C06", "c06",
            "Seeded search over interleaved histories of construct/configure/call/re-request/scribble/drop operations of several simulated caller scripts on real ExactPack objects in one interpreter, with injected dependency failures, asynchronous aborts, descriptor exhaustion, caller aliasing, object-lifetime churn and dirty allocation; every call is compared bit for bit with the same call made first in a fresh interpreter image (fork of a pristine all-imported process), returned solutions and caller buffers are re-verified after every later step, and shared points of re-requests are compared under per-family granularity classes. Sampling, not enumeration: a clean batch is evidence, not proof.",
            "Trusts: fork() of a pristine all-imported image is equivalent to a fresh interpreter (calibrated by selftest); same machine code + same inputs in one thread is bit-reproducible; numpy/scipy are real and unmodified behind counting proxies; no pre-emptive threading (outside the property's quantifier). History and reference run the same code, so reproducible-but-wrong values are invisible here by construction.",
            "deterministic simulation: seeded operation/fault schedules, differential fresh-process oracle, ddmin replay", "DESIGN.md §3"))
    if "C05" in claimed:
        checks.append(check("C05", "c05",
            "Seeded simulated sessions in which a conformance client walks the whole solver census (by introspection) interleaved with other clients' operations: per visit a bad constructor, a good constructor, the same request through ndarray/list/tuple/read-only/strided/Fortran containers, dump through a fault-injecting stream seam (ENOSPC/EIO on open/write/flush/close, short writes) and through a real file, then scribbling on the caller's buffer and re-verifying the solution. Record count, position fields, field names against a pinned interface census, container equivalence (bitwise), input non-modification (monitored after every later step), exact CSV round trip and ValueError for unknown/missing parameters are checked after every step.",
            "Trusts: the pinned interface census (/verif/interface_census.json) transcribes the documented field names; CPython csv/float repr are real; the in-memory stream stub is cross-checked against a real file in the fault-free configuration. The stateless clauses (count, names, ValueError) are carried by the workload rather than decided by the simulator - said plainly in DESIGN.md §4.1.",
            "deterministic simulation: seeded sessions with buffer-ownership monitor and stream fault injection", "DESIGN.md §4"))
    man = {
        "version": 1,
        "setup_cmd": f"{PY} -m sim.setup",
        "hooks": {
            "guard": "EXACTPACK_VERIF",
            "enable": "no source hook exists in /repo: all seams (scipy names, numpy allocation alias, open(), sys.settrace, RLIMIT_NOFILE) are patched from outside by /verif/sim at run time; EXACTPACK_VERIF guards nothing inside /repo",
            "baseline_off_cmd": "cd /repo && /venv/bin/python -m pytest -ra -q -p no:cacheprovider --timeout=900 --continue-on-collection-errors",
            "source_commits": [],
            "add_only": True,
        },
        "engines": [{"name": "sim", "path": "/verif/sim", "serves_properties": sorted(claimed),
                     "kind_free_text": "hand-written deterministic simulator: seeded client/operation/fault scheduler over real ExactPack objects, fork-per-run from a pristine image, differential fresh-process reference, ddmin shrinker, explicit replay files"}],
        "checks": checks,
        "notes": "Deterministic simulation with fault injection only. 18 of 20 properties are pure functions of their inputs and are listed not_applicable with reasons (DESIGN.md §0). No hook was needed in /repo (all seams are patched from outside at run time); /repo carries seven unguarded 'fix:' commits for genuine defects the checks found (DESIGN.md §9.3, /verif/known_findings.json), and one recorded known finding (C06, ie_Solver). Self-tests: python -m sim.selftest determinism|calibration|fixed|oracle|mutants. Sensitivity sets: /verif/mutants (hand-written), /verif/seeded (independent sub-agents).",
        "not_applicable": [{"property_id": k, "reason": v} for k, v in sorted(NA.items())]
            + [{"property_id": k, "reason": "claimed in DESIGN.md; check under construction, not yet registered"} for k in ("C05", "C06") if k not in claimed],
    }
    return man

if __name__ == "__main__":
    claimed = set(sys.argv[1:])
    with open(os.path.join(HERE, "MANIFEST.json"), "w") as f:
        json.dump(build(claimed), f, indent=1)
        f.write("\n")
    print("wrote MANIFEST.json claimed=", sorted(claimed))
