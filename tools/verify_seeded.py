#!/usr/bin/env python3
"""Confirm a seeded change's claims ourselves, in a scratch export of /repo HEAD outside /repo and /verif:
the demo passes without the change, fails with it, and the unedited suite still passes with it.
Usage: tools/verify_seeded.py <seeded id> [--no-suite]
Writes the results into /verif/seeded/<id>/meta.json under "verified"."""
import json, os, shutil, subprocess, sys, tempfile
HERE = os.path.dirname(os.path.dirname(os.path.abspath(__file__)))
DESELECT = "exactpack/tests/test_riemann.py::Test_RiemannJWL_Lee::test_riemLeegen_region_boundaries"

def sh(cmd, cwd, timeout=3600):
    return subprocess.run(cmd, cwd=cwd, capture_output=True, text=True, timeout=timeout)

def main():
    sid = sys.argv[1]
    d = os.path.join(HERE, "seeded", sid)
    meta = json.load(open(os.path.join(d, "meta.json")))
    tmp = tempfile.mkdtemp(prefix="epsim_seed_")
    try:
        clean = os.path.join(tmp, "clean"); mut = os.path.join(tmp, "mut")
        for t in (clean, mut):
            os.makedirs(t)
            p = subprocess.run("git -C /repo archive HEAD | tar -x -C %s" % t, shell=True)
            assert p.returncode == 0
        a = sh(["git", "apply", os.path.join(d, "patch.diff")], mut)
        assert a.returncode == 0, a.stderr
        r_clean = sh(["/venv/bin/python", os.path.join(d, "demo.py"), clean], clean)
        r_mut = sh(["/venv/bin/python", os.path.join(d, "demo.py"), mut], mut)
        ver = {"head": sh(["git", "-C", "/repo", "rev-parse", "--short", "HEAD"], "/").stdout.strip(),
               "demo_on_clean_tree": {"exit": r_clean.returncode, "tail": (r_clean.stdout.strip().splitlines() or [""])[-1][:200]},
               "demo_with_change": {"exit": r_mut.returncode, "tail": (r_mut.stdout.strip().splitlines() or [""])[-1][:200]}}
        if "--no-suite" not in sys.argv:
            s = sh(["/venv/bin/python", "-m", "pytest", "-q", "-rf", "-p", "no:cacheprovider", "-n", "8", "--timeout=900", "exactpack/tests", "--deselect", DESELECT], mut, timeout=7200)
            failed = [l.split()[1] for l in s.stdout.splitlines() if l.startswith("FAILED ")]
            ver["suite_with_change"] = {"exit": s.returncode, "tail": (s.stdout.strip().splitlines() or [""])[-1][:200], "failed": failed,
                                        "cmd": "pytest -q -n 8 exactpack/tests --deselect " + DESELECT + " (in a scratch export of HEAD with the patch applied)"}
            if failed:
                # a test that draws unseeded random numbers exists in the suite: re-run the failures alone, with the change
                reruns = [sh(["/venv/bin/python", "-m", "pytest", "-q", "-p", "no:cacheprovider"] + failed, mut).returncode for _ in range(3)]
                ver["suite_with_change"]["reruns_of_failed_alone"] = reruns
                if all(r == 0 for r in reruns):
                    ver["suite_with_change"]["exit"] = 0
                    ver["suite_with_change"]["note"] = "failure did not recur in 3 isolated re-runs with the change applied: flaky test (unseeded rand), not caused by the change"
        ver["ok"] = bool(r_clean.returncode == 0 and r_mut.returncode != 0 and ver.get("suite_with_change", {"exit": 0})["exit"] == 0)
        meta["verified"] = ver
        json.dump(meta, open(os.path.join(d, "meta.json"), "w"), indent=1)
        print(sid, json.dumps(ver))
    finally:
        shutil.rmtree(tmp, ignore_errors=True)

if __name__ == "__main__":
    main()
