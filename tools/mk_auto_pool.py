"""One-off generator of /verif/auto_pool.json: one-at-a-time parameter variants per family.

For the base class of every family and every float-valued parameter p, the variant is the family's first
(known-good) pool entry with p = default*1.07 (or +0.1 when the default is 0).  A variant is kept only if
construct + one call succeeds on the tree at generation time, so that the workload is not dominated by
failing operations.  The file is committed; checks never regenerate it.  Purpose: a cache keyed on too few
parameters is only visible with two parameter sets that differ in exactly the parameter the key forgot.
"""
import json, random
from sim.env import ensure_env; ensure_env()
from sim import batch, world, templates as T, gen, ops as OPS
from sim.codec import enc
batch.init_world(auto=False)
out = {}
def probe(fam, q, kw):
    g = gen.Gen(random.Random(1), [fam], dict(gen.BASE_CFG, n_choices=[3], bb_setters=0.0, share_eos=0, share_ic=0, explicit_ic=0, plain_container=1.0, refill=0, special_pts=0.0, nonfinite_pts=0.0, odd_time=0.0))
    fam.pool.append(T.PSet(kw, fam.pool[0].pts, fam.pool[0].times))
    st = g.new_op(0, fam, qual=q, pi=len(fam.pool) - 1)
    pts, t, lay = g.request_points(st, n=4, v=0)
    g.call_op(0, st, pts, t, lay, cont="nd")
    o = OPS.run_history({"ops": g.ops, "faults": [], "run": {}})["log"][-1]["out"]
    return o[0] == "ok"
for fname, fam in T.FAMILIES.items():
    if fam.internal or fam.cost == "heavy" or fname in ("nohblackbox",):
        continue
    q = "exactpack.solvers." + fam.classes[0]
    cls = world.CENSUS[q]
    base = dict(fam.pool[0].kwargs)
    keep = []
    for p in sorted(cls.parameters):
        d = base.get(p, getattr(cls, p, None))
        if p == "geometry":
            continue
        if isinstance(d, bool):
            cands = [not d]                      # flags
        elif isinstance(d, int):
            cands = [d + 1] + ([d - 1] if d > 2 else [])     # series lengths, table sizes, mode counts
        elif isinstance(d, float):
            cands = [d * 1.07 if d != 0 else 0.1]
        else:
            continue
        for v in cands:
            kw = dict(base); kw[p] = v
            r = world.infork(lambda: probe(fam, q, kw), timeout=300)
            ok = r[0] == "ok" and r[1]
            if ok:
                keep.append({"param": p if len(cands) == 1 or v == cands[0] else p + "-", "kwargs": enc(kw)})
    out[fname] = keep
    print("%-22s %d variants: %s" % (fname, len(keep), [k["param"] for k in keep]), flush=True)
json.dump({"comment": "one-at-a-time parameter variants (tools/mk_auto_pool.py); appended to the family pools at load time", "families": out},
          open("/verif/auto_pool.json", "w"), indent=1, sort_keys=True)
