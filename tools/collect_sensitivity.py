#!/usr/bin/env python3
"""Transcribe the CAUGHT/MISSED lines of a `python -m sim.selftest mutants` log (e.g. a `vp run` log) into
/verif/sensitivity_last_run.json.  Documentation of a background run at a stated commit -- not property evidence."""
import json, re, sys
log, commit = sys.argv[1], sys.argv[2]
rows = {}
for line in open(log):
    m = re.match(r"\s+(\S+)\s+(CAUGHT|MISSED) exit=(\d+)\s+(\d+)s (\[.*\])", line)
    if m:
        rows[m.group(1)] = {"result": m.group(2), "exit": int(m.group(3)), "wall_s": int(m.group(4)), "violations": eval(m.group(5))}
extra = json.loads(sys.argv[3]) if len(sys.argv) > 3 else {}
doc = {"what": "full quick tier of the property's check against each change applied to a scratch copy (python -m sim.selftest mutants)",
       "verif_commit_of_the_run": commit, "results": rows, "caught": sum(1 for r in rows.values() if r["result"] == "CAUGHT"),
       "missed": sorted(k for k, r in rows.items() if r["result"] == "MISSED"), "total": len(rows),
       "re_tested_after_later_workload_changes": extra}
json.dump(doc, open("/verif/sensitivity_last_run.json", "w"), indent=1)
print(doc["caught"], "/", doc["total"], "missed:", doc["missed"])
