"""C05 -- every solver honours the uniform call/return contract.  DESIGN.md §4."""
import sys


def make(seed, tier, kind, index):
    from sim import gen as GEN
    if kind == "cornerstone":
        return GEN.make_c05_sweep(seed, tier, index)
    return GEN.make_c05_run(seed, tier, index)


def sizes(tier):
    from sim import gen as GEN
    n_sweep = len(GEN.c05_census(tier, sweep=True)) + 1      # one constructor-clause sweep per census class, heavy ones included (+ the probe class)
    if tier == "quick":
        return n_sweep, 900, 1500.0
    return n_sweep, 3000, 3 * 3600.0


def extra(agg):
    return {}


DESCRIBE = {
    "rule": ("each evaluation is one simulated session: a conformance client visits 1-3 classes of the census "
             "(class index = (run index*7 + 41*j) mod census size) and per visit issues a constructor with an unknown keyword, "
             "one without a default-less parameter where the class has one, a good constructor, the same request through every "
             "container kind, dumps through the stream seam (fault-free, real file, fault-injected then fault-free), a scribble on "
             "its own input followed by a re-dump, and a second request of another size -- interleaved by the seeded scheduler "
             "with 0-2 background clients from the C06 workload.  Two runs are distinct when their sequences of (client, family, "
             "operation kind, parameter-set) differ; non-trivial = at least two solver objects alive at once and an operation on one "
             "object directly following an operation on a different object of the same module."),
    "components": {"real": ["all of ExactPack from the working tree", "numpy", "scipy", "CPython csv, TextIOWrapper and BufferedWriter"],
                   "stub": ["in-memory raw device (io.RawIOBase) with a fault plan under the real buffered/text layers for sim:// paths; "
                            "the fault-free configuration is also run against a real file in a scratch directory",
                            "counting pass-through proxies around scipy callables", "numpy alias proxy for np.empty/np.empty_like"],
                   "reference_model": "container equivalence is decided between two fresh evaluations (fork of the pristine image); "
                                      "field names against the pinned /verif/interface_census.json"},
    "assumptions": ["the pinned interface census transcribes each solver's documented field names",
                    "csv.reader is the reader a user would use to read the file back",
                    "fork() of the pristine image is equivalent to a fresh interpreter (selftest calibration)"],
    "extra": extra,
}


def main(argv=None):
    from sim.env import ensure_env
    ensure_env("checks.c05")
    from sim import batch, oracle
    try:
        return batch.main("C05", oracle.judge_c05, make, sizes, DESCRIBE, argv)
    except SystemExit:
        raise
    except BaseException as e:  # harness trouble is never a verdict: exit 2, not a traceback's exit 1
        import traceback
        traceback.print_exc()
        print("HARNESS: %s: %s" % (type(e).__name__, e))
        return 2


if __name__ == "__main__":
    sys.exit(main())
