"""C06 -- a value depends only on (parameters, point, time), not on history or batch.  DESIGN.md §3."""
import sys


def make(seed, tier, kind, index):
    from sim import gen as GEN
    if kind == "cornerstone":
        return GEN.make_cornerstone(seed, tier, index, "C06")
    return GEN.make_run(seed, tier, index, "C06")


def sizes(tier):
    from sim import gen as GEN
    n_corner_all = len(GEN.cornerstone_list(tier))
    if tier == "quick":
        return min(n_corner_all, 4000), 800, 1500.0
    return n_corner_all, 16000, 4 * 3600.0


DESCRIBE = {
    "rule": ("each evaluation is one simulated session: a seeded interleaving of construct/configure/call/re-request/"
             "scribble/drop/churn operations of 1-4 caller scripts over 1-4 solver families (cornerstone runs: a fixed "
             "list of same-module parameter-set pairs), executed in a fork of a pristine interpreter image, optionally "
             "a second time with resolved dependency-failure / abort / devnull faults.  Two runs are distinct when their "
             "sequences of (client, family, operation kind, parameter-set) differ; a run is non-trivial when at least two "
             "solver objects were alive at once AND some operation on one object directly followed an operation on a "
             "different object of the same module.  distinct_nontrivial counts distinct signatures of such runs."),
    "components": {"real": ["all of ExactPack from the working tree", "numpy", "scipy incl. ODEPACK/QUADPACK/MINPACK",
                            "CPython csv / io buffering layers"],
                   "stub": ["counting pass-through proxies around scipy.optimize/integrate/interpolate callables (raise only when the fault plan says so)",
                            "numpy alias proxy: np.empty/np.empty_like return memory pre-filled with the run's pattern",
                            "in-memory raw device under the real BufferedWriter/TextIOWrapper for sim:// dumps"],
                   "reference_model": "the same operation made first in a fork of the pristine image (same code, fresh state)"},
    "assumptions": ["fork() of the pristine all-imported image is equivalent to a fresh interpreter (selftest calibration)",
                    "identical machine code on identical inputs in one thread is bit-reproducible",
                    "operations are atomic: no pre-emptive threading (outside the property's quantifier)",
                    "history and reference run the same code: reproducible-but-wrong values are other properties' business"],
}


def main(argv=None):
    from sim.env import ensure_env
    ensure_env("checks.c06")
    from sim import batch, oracle
    try:
        return batch.main("C06", oracle.judge_c06, make, sizes, DESCRIBE, argv)
    except SystemExit:
        raise
    except BaseException as e:  # harness trouble is never a verdict: exit 2, not a traceback's exit 1
        import traceback
        traceback.print_exc()
        print("HARNESS: %s: %s" % (type(e).__name__, e))
        return 2


if __name__ == "__main__":
    sys.exit(main())
