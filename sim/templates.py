"""Solver families: parameter pools, request templates, cost and granularity classes.

Data, not logic (DESIGN.md Appendix A).  A *pool entry* (PSet) is a known-good or deliberately
failing construction recipe plus the region of space/time in which requests are generated.  Nothing
here says what a correct value is: the oracle is differential.

Points never sit on a node of an internal grid or on a discontinuity: they are
``lo + (hi-lo) * (i + offset)/n`` (1-D) or a Kronecker sequence in a box (n-D) with irrational
offsets chosen by an integer variant.
"""
import math

import numpy as np

OFFS = [math.sqrt(2) / 3, math.pi / 7, math.e / 5, math.sqrt(3) / 2, 1 / math.pi, math.sqrt(5) / 3, 0.5 ** 0.3, math.log(2)]
ALPHA = [math.sqrt(2) - 1, math.sqrt(3) - 1, math.sqrt(5) - 2]  # Kronecker multipliers per dimension


def frac(x):
    return x - math.floor(x)


class P1(object):
    """1-D request region [lo, hi]."""
    layout = "N"

    def __init__(self, lo, hi):
        self.lo, self.hi = float(lo), float(hi)

    def gen(self, n, v):
        o = OFFS[v % len(OFFS)]
        return self.lo + (self.hi - self.lo) * ((np.arange(n) + o) / n)

    def special(self, rng):
        """Points a template would otherwise never produce: ends, simple fractions of the region, the origin."""
        lo, hi = self.lo, self.hi
        return rng.choice([lo, hi, 0.5 * (lo + hi), lo + (hi - lo) / 3.0, lo + 2.0 * (hi - lo) / 3.0, lo + (hi - lo) / 4.0,
                           lo + (hi - lo) / 5.0, 0.0, hi * 0.5, hi / 3.0, 2.0 * hi / 3.0,
                           hi + 0.5 * (hi - lo), lo - 0.25 * (hi - lo), -0.1 * abs(hi)])   # the last three lie outside the region


class PBox(object):
    """(N,d) request in a box; optional reject predicate on a single point."""
    layout = "Nd"

    def __init__(self, lo, hi, reject=None, surface=None):
        self.lo = np.array(lo, dtype=float)
        self.hi = np.array(hi, dtype=float)
        self.reject = reject
        self.surface = surface   # radius of a boundary surface of the problem (inert sphere, HE interface): points ON it

    def gen(self, n, v):
        d = len(self.lo)
        out = []
        i = 0
        while len(out) < n and i < 50 * n + 50:
            i += 1
            p = np.array([self.lo[k] + (self.hi[k] - self.lo[k]) * frac(i * ALPHA[k] + (k + 1) * OFFS[v % len(OFFS)])
                          for k in range(d)])
            if self.reject is not None and self.reject(p):
                continue
            out.append(p)
        return np.array(out)

    def special(self, rng):
        d = len(self.lo)
        if self.surface is not None and rng.random() < 0.5:
            # a point on the boundary surface up to rounding, the way a mesh generator produces it: (R cos a, R sin a[, ...])
            a = 2.0 * math.pi * rng.random()
            if d == 2:
                return np.array([self.surface * math.cos(a), self.surface * math.sin(a)])
            b = math.pi * rng.random()
            return np.array([self.surface * math.sin(b) * math.cos(a), self.surface * math.sin(b) * math.sin(a), self.surface * math.cos(b)])
        for _ in range(20):
            p = np.array([rng.choice([self.lo[k], self.hi[k], 0.5 * (self.lo[k] + self.hi[k]), 0.0,
                                      self.lo[k] + (self.hi[k] - self.lo[k]) / 3.0]) for k in range(d)])
            if self.reject is None or not self.reject(p):
                return p
        return None


class P2N(object):
    """(2,N) request: two coordinate arrays (the three 2-D heat solvers' own convention)."""
    layout = "2N"

    def __init__(self, lo, hi):
        self.lo, self.hi = lo, hi

    def gen(self, n, v):
        o = OFFS[v % len(OFFS)]
        o2 = OFFS[(v + 3) % len(OFFS)]
        a = self.lo[0] + (self.hi[0] - self.lo[0]) * ((np.arange(n) + o) / n)
        b = self.lo[1] + (self.hi[1] - self.lo[1]) * np.array([frac((i + 1) * ALPHA[1] + o2) for i in range(n)])
        return np.array([a, b])

    def special(self, rng):
        return np.array([rng.choice([self.lo[k], self.hi[k], 0.5 * (self.lo[k] + self.hi[k]), 0.0,
                                     self.lo[k] + (self.hi[k] - self.lo[k]) / 3.0]) for k in range(2)])


class PMesh(object):
    """Declared mesh (RateStick / ExplosiveArc): the request *is* the xnodes x ynodes mesh."""
    layout = "Nd"
    fixed_n = True

    def __init__(self, pts):
        self.pts = np.array(pts, dtype=float)

    def gen(self, n, v):
        return self.pts.copy()


class PLin(object):
    """Uniform cell-centre style grid from lo to hi (Mader: the request defines dx)."""
    layout = "N"

    def __init__(self, lo, hi):
        self.lo, self.hi = float(lo), float(hi)

    def gen(self, n, v):
        n = max(n, 2)
        sh = 0.01 * OFFS[v % len(OFFS)]
        return np.linspace(self.lo + sh, self.hi + sh, n)


class PSet(object):
    def __init__(self, kwargs, pts, times, eos=None, guess=None, ic=None, note=""):
        self.kwargs = kwargs
        self.pts = pts
        self.times = [float(t) for t in times]
        self.eos = eos        # (class name, [args]) for black-box Noh
        self.guess = guess
        self.ic = ic          # initial_conditions dict or None
        self.note = note


class Family(object):
    def __init__(self, name, classes, pool, cost="cheap", gran="pointwise", min_n=1, weight=1.0, internal=False):
        self.internal = internal    # harness-defined probe family: never part of C06 workloads or the census count
        self.name = name
        self.classes = classes      # qualified names (without 'exactpack.solvers.')
        self.pool = pool
        self.cost = cost            # cheap | medium | heavy
        self.gran = gran            # pointwise | sedov | mader | fixed | mesh | ie
        self.min_n = min_n
        self.weight = weight


FAMILIES = {}


def _fam(*a, **kw):
    f = Family(*a, **kw)
    FAMILIES[f.name] = f
    return f


# ---------------------------------------------------------------------------------------------
_fam("noh", ["noh.noh1.Noh", "noh.noh1.PlanarNoh", "noh.noh1.CylindricalNoh", "noh.noh1.SphericalNoh"], [
    PSet(dict(geometry=3), P1(.05, 1.), [.6, .3]),
    PSet(dict(geometry=1, gamma=1.4), P1(.05, 1.), [.6, .3]),
    PSet(dict(geometry=2, gamma=3., u0=-2.5, rho0=3.), P1(.05, 4.), [.6, 1.1]),
    PSet(dict(geometry=3, gamma=1.2, u0=-.3), P1(.001, .1), [.9, .6]),
    PSet(dict(geometry=2, gamma=5. / 3), P1(.0, 1.), [.6, 0.0]),
])

_fam("noh2", ["noh2.noh2.Noh2", "noh2.noh2.PlanarNoh2", "noh2.noh2.CylindricalNoh2", "noh2.noh2.SphericalNoh2"], [
    PSet(dict(geometry=3), P1(.05, 1.), [.6, .3, 1.5]),
    PSet(dict(geometry=1, gamma=1.4, rho0=2., e0=.5), P1(.05, 1.), [.3, .6]),
    PSet(dict(geometry=2, gamma=1.4), P1(.05, 2.), [.5, .9]),
])
_fam("noh2cog", ["noh2.noh2_cog.Noh2Cog"], [
    PSet(dict(), P1(.05, 1.), [.6, .3]),
    PSet(dict(geometry=2, gamma=1.4, rho0=2., e0=.5), P1(.05, 1.), [.3, .6]),
])

_fam("sedov", ["sedov.sedov.Sedov", "sedov.PlanarSedov", "sedov.CylindricalSedov", "sedov.SphericalSedov"], [
    PSet(dict(geometry=3), P1(.02, 1.2), [1., .5]),
    PSet(dict(geometry=2, gamma=5. / 3), P1(.02, 1.4), [.7, 1.]),
    PSet(dict(geometry=1, gamma=1.2, eblast=2.), P1(.02, 2.), [.5, 1.]),
    PSet(dict(geometry=3, omega=1.), P1(.02, 1.2), [1., .5]),
    PSet(dict(geometry=3, omega=2.5), P1(.02, 1.2), [1.]),
    PSet(dict(geometry=3, gamma=1.4, omega=7. / 3), P1(.02, 1.2), [1.], note="ZeroDivisionError: natural failing op"),
], cost="medium", gran="sedov", weight=0.25)

_fam("guderley", ["guderley.guderley.Guderley"], [
    PSet(dict(gamma=3.), P1(.1, 1.5), [1., -1.]),
    PSet(dict(gamma=2.5, geometry=2), P1(.1, 2.), [.9]),
    PSet(dict(gamma=3., rho0=2.), P1(.1, 1.5), [.5, 1.]),
    PSet(dict(gamma=6., geometry=2), P1(.1, 1.5), [1.2]),
    PSet(dict(gamma=3., geometry=1), P1(.1, 1.5), [1.], note="geometry 1 invalid: natural failing op"),
], cost="medium", weight=0.12)

_RIEM = [
    (dict(), [.25, .1]),
    (dict(rl=1., ul=-2., pl=.4, rr=1., ur=2., pr=.4), [.15]),
    (dict(xd0=.8, rl=1., ul=-19.59745, pl=1000., rr=1., ur=-19.59745, pr=.02), [.012]),
    (dict(rl=1., ul=.5, pl=1., rr=1.25, ur=-.5, pr=1.), [.3]),
    (dict(rl=1., ul=0., pl=2., gl=2., rr=.125, ur=0., pr=.1, gr=1.4), [.2, .1]),
    (dict(rl=.445, ul=.698, pl=3.528, rr=.5, ur=0., pr=.571), [.15]),
    (dict(rl=.125, ul=0., pl=.1, rr=1., ur=0., pr=1.), [.2]),
]
_fam("riemann_ig", ["riemann.ep_riemann.IGEOS_Solver"],
     [PSet(k, P1(.05, .95), t) for k, t in _RIEM], gran="fixed")
_fam("riemann_gen", ["riemann.ep_riemann.GenEOS_Solver"],
     [PSet(dict(num_int_pts=301, num_x_pts=501, **_RIEM[i][0]), P1(.05, .95), _RIEM[i][1]) for i in (0, 3, 4)],
     cost="medium", gran="fixed", weight=0.25)


class PFan(object):
    """2-D steady Riemann: points on the line x=1 at polar angles spread over the fan."""
    layout = "Nd"

    def gen(self, n, v):
        a = P1(-1.2, 1.2).gen(n, v)
        return np.array([[1., math.tan(x)] for x in a])


_fam("riemann2d", ["riemann2D_2section_steadystate.ep_riemann2D_2section_steadystate.IGEOS_Solver"], [
    PSet(dict(), PFan(), [.25]),
    PSet(dict(bottom_state=[1., 1., 2.4, 0., 1.4], top_state=[.5, .5, 4., 0., 1.4]), PFan(), [.25]),
    PSet(dict(bottom_state=[.25, .5, 7., 0., 1.4], top_state=[1., 1., 2.4, 0., 1.4]), PFan(), [.25, 1.]),
], weight=0.6)

_fam("radshock_ned", ["radshocks.nED_radshocks.nED_Solver"], [
    PSet(dict(), P1(-.02, .02), [1e-10]),
    PSet(dict(M0=1.05), P1(-.02, .02), [1e-10, 0.]),
    PSet(dict(M0=3.), P1(-.02, .02), [1e-10]),
    PSet(dict(M0=2., gamma=1.4, Tref=50.), P1(-.02, .02), [1e-10], note="fails inside brentq in the constructor: natural F2"),
], cost="medium", gran="fixed", weight=0.12)
_fam("radshock_ie", ["radshocks.nED_radshocks.ie_Solver"], [
    PSet(dict(), P1(-.02, .02), [1e-10]),
    PSet(dict(M0=1.2), P1(-.02, .02), [1e-10]),
], cost="medium", gran="ie", weight=0.12)
_fam("radshock_ed", ["radshocks.nED_radshocks.ED_Solver"], [
    PSet(dict(), P1(-.02, .02), [1e-10]),
    PSet(dict(M0=2.), P1(-.02, .02), [1e-10]),
], cost="heavy", gran="fixed", weight=0.03)
_fam("radshock_sn", ["radshocks.nED_radshocks.Sn_Solver"], [
    PSet(dict(), P1(-.02, .02), [1e-10]),
], cost="heavy", gran="fixed", weight=0.004)

_fam("rmtv", ["rmtv.rmtv.Rmtv"], [
    PSet(dict(), P1(.05, 1.), [1.]),
    PSet(dict(rf=.8), P1(.05, 1.), [1.]),
    PSet(dict(g0=2.), P1(.05, 1.), [1.]),
    PSet(dict(chi0=2.), P1(.05, 1.), [1.]),
], cost="medium", weight=0.4)

_fam("suolson", ["suolson.suolson.SuOlson"], [
    PSet(dict(), P1(.05, 3.), [1e-9, 1e-10]),
    PSet(dict(opac=2., trad_bc_ev=500.), P1(.05, 2.), [1e-10]),
    PSet(dict(alpha=3.02636565993931701e-13), P1(.05, 3.), [1e-9, 0.]),
], cost="medium", weight=0.4)

_fam("mader", ["mader.timmes.Mader"], [
    PSet(dict(), PLin(.25, 4.75), [3e-6, 5e-6]),
    PSet(dict(u_piston=1e4, gamma=2.5), PLin(.25, 4.75), [2e-6]),
    PSet(dict(p_cj=2e11, d_cj=7e5), PLin(.1, 3.9), [5e-6]),
], gran="mader", min_n=2)

_fam("sdrz", ["sdrz.sdrz.SteadyDetonationReactionZone"], [
    PSet(dict(), P1(0., .45), [.5, 1., 2.]),
    PSet(dict(D=1., gamma=2.5, rho_0=2.), P1(0., .7), [.7, 1.2]),
    PSet(dict(), P1(0., 1.1), [1.2, 1.5, .999]),
], gran="fixed")

_fam("ehep", ["ehep.ehep.EscapeOfHEProducts"], [
    PSet(dict(), P1(.05, 3.), [1.5, .5]),
    PSet(dict(up=0., D=.9), P1(.05, 3.), [2.5]),
    PSet(dict(xtilde=2., up=.1, rho_0=2.), P1(.05, 6.), [4., 1.]),
])

_fam("ep_piston", ["ep_piston.ep_piston.EPpiston"], [
    PSet(dict(), P1(0., 2.), [2., 1.]),
    PSet(dict(model='hypo'), P1(0., 2.), [2.]),
    PSet(dict(model='hyperFin', gamma=2.2, c0=.5, s0=1.4, G=.29, Y=.003, rho0=2.89, up=.015), P1(0., 2.), [1.5]),
], gran="ep_piston")

_fam("blake", ["blake.blake.Blake"], [
    PSet(dict(), P1(.1, 1.), [1.6e-4, 5e-5]),
    PSet(dict(lame_mod=3e10, shear_mod=2e10, ref_density=2000.), P1(.1, 1.), [1e-4]),
    PSet(dict(youngs_mod=6e10, poisson_ratio=.3, cavity_radius=.2), P1(.2, 1.5), [2e-4]),
    PSet(dict(bulk_mod=4e10, long_mod=7e10, pressure_scale=2e6), P1(.1, 1.), [1.6e-4]),
])

_fam("kenamond1", ["kenamond.kenamond1.Kenamond1"], [
    PSet(dict(), PBox([-5., -8.], [5., 8.]), [.6]),
    PSet(dict(geometry=3, x_d=(0., 0., 0.), D=2.), PBox([-5., -5., -5.], [5., 5., 13.]), [.6]),
    PSet(dict(x_d=(1., 1.), t_d=-2.), PBox([-3., -3.], [3., 3.]), [.6]),
])
_fam("kenamond2", ["kenamond.kenamond2.Kenamond2"], [
    PSet(dict(), PBox([.1, -12.], [5., 12.], surface=3.), [.6]),
    PSet(dict(geometry=3, D1=1.5), PBox([.1, -1., -12.], [5., 1., 12.], surface=3.), [.6]),
    PSet(dict(R=2., D2=1.), PBox([.1, -12.], [5., 12.], surface=2.), [.6]),
    PSet(dict(dets=[12., 6., -6., -12.], t_d=[2., 1., 0., 1., 2.]), PBox([.1, -13.], [5., 13.], surface=3.), [.6]),
    PSet(dict(t_d=[1.5, 1., 0., 1., 2.5]), PBox([.1, -12.], [5., 12.], surface=3.), [.6]),
])
_fam("kenamond3", ["kenamond.kenamond3.Kenamond3"], [
    PSet(dict(), PBox([-6., -7.], [6., 7.], reject=lambda p: p[0] ** 2 + p[1] ** 2 < 3.05 ** 2, surface=3.), [.6]),
    PSet(dict(geometry=3, x_d=(0., 0., 5.)), PBox([-6., -6., -7.], [6., 6., 7.], reject=lambda p: (p ** 2).sum() < 3.05 ** 2, surface=3.), [.6]),
    PSet(dict(R=4., D=1., t_d=-2.), PBox([-6., -7.], [6., 7.], reject=lambda p: p[0] ** 2 + p[1] ** 2 < 4.05 ** 2, surface=4.), [.6]),
    PSet(dict(), PBox([-2., -2.], [2., 2.]), [.6], note="points inside the inert: natural failing op"),
])

_fam("cylexpansion", ["dsd.cylexpansion.CylindricalExpansion"], [
    PSet(dict(), PBox([-3., -3.], [3., 3.], reject=lambda p: not (1.0 <= p[0] ** 2 + p[1] ** 2 <= 9.0), surface=2.), [.6]),
    PSet(dict(r_1=1.2, D_CJ_2=.5), PBox([-3., -3.], [3., 3.], reject=lambda p: not (1.0 <= p[0] ** 2 + p[1] ** 2 <= 9.0)), [.6]),
    PSet(dict(alpha_1=.05, r_2=2.5), PBox([-2.4, -2.4], [2.4, 2.4], reject=lambda p: not (1.0 <= p[0] ** 2 + p[1] ** 2 <= 6.0)), [.6]),
])

_RS = [[x, y] for y in (0., .02) for x in (0., .5, 1.)]
_fam("ratestick", ["dsd.ratestick.RateStick"], [
    PSet(dict(xnodes=3, ynodes=2, t_f=.03), PMesh(_RS), [.6]),
    PSet(dict(geometry=2, xnodes=3, ynodes=2, t_f=.03), PMesh(_RS), [.6]),
    PSet(dict(xnodes=2, ynodes=2, t_f=.03), PMesh(_RS), [.6], note="mesh does not match: natural failing op"),
], cost="medium", gran="mesh", weight=0.3)

_EA = [[r * math.cos(th), r * math.sin(th)] for th in np.linspace(-math.pi / 2, math.pi / 2, 4) for r in (2., 3., 4.)]
_fam("explosivearc", ["dsd.explosivearc.ExplosiveArc"], [
    PSet(dict(xnodes=3, ynodes=4, t_f=.02), PMesh(_EA), [.6]),
    PSet(dict(xnodes=3, ynodes=4, t_f=.03, alpha=.2), PMesh(_EA), [.6]),
], cost="medium", gran="mesh", weight=0.3)

_fam("rod1d", ["heat.rod1d.Rod1D"], [
    PSet(dict(), P1(0., 2.), [.1, 1.]),
    PSet(dict(alpha1=0., beta1=1., alpha2=0., beta2=1., TL=1., TR=4.), P1(0., 2.), [.1]),
    PSet(dict(alpha1=1., beta1=0., alpha2=0., beta2=1., gamma2=.5), P1(0., 2.), [.1]),
    PSet(dict(alpha1=0., beta1=1., alpha2=1., beta2=0., gamma1=.5), P1(0., 2.), [.1]),
    PSet(dict(alpha1=1., beta1=1., alpha2=1., beta2=1., Nsum=30), P1(0., 2.), [.1]),
])
_fam("planar_sandwich", ["heat.planar_sandwich.PlanarSandwich"], [
    PSet(dict(), P1(0., 2.), [.1, 1.]),
    PSet(dict(TB=1., TT=0., Nsum=200), P1(0., 2.), [.1]),
])
_fam("planar_sandwich_hot", ["heat.planar_sandwich_hot.PlanarSandwichHot"], [
    PSet(dict(), P1(0., 2.), [.1]), PSet(dict(Nsum=50), P1(0., 2.), [.2])])
_fam("planar_sandwich_half", ["heat.planar_sandwich_half.PlanarSandwichHalf"], [
    PSet(dict(), P1(0., 2.), [.1]), PSet(dict(Nsum=50), P1(0., 2.), [.2])])
_fam("hutchens1", ["heat.hutchens1.Hutchens1"], [
    PSet(dict(), P1(0., 1.), [.05, .1]),
])
_fam("hutchens2", ["heat.hutchens2.Hutchens2"], [
    PSet(dict(), P2N([0., 0.], [1., 2.]), [0.]),
    PSet(dict(Nsum=50, Tb=3.), P2N([0., 0.], [1., 2.]), [0.]),
])
_fam("rectangle", ["heat.rectangle.Rectangle"], [
    PSet(dict(Nsum=30), P2N([0., 0.], [2., 2.]), [.05]),
    PSet(dict(Nsum=30, Ttop=2., a=1., b=3.), P2N([0., 0.], [1., 3.]), [.05]),
])
_fam("cylindrical_sandwich", ["heat.cylindrical_sandwich.CylindricalSandwich"], [
    PSet(dict(Nsum=4, Msum=4), P2N([.5, 0.], [1., 1.5]), [.05]),
], weight=0.5)

# black-box Noh: 6 EOS x 3 geometries with the documented initial guesses
_EOS = [("ideal_gas_eos", [5. / 3]), ("ideal_gas_eos", [1.4]), ("stiffened_gas_eos", []), ("noble_abel_eos", []),
        ("carnahan_starling_eos", []), ("aluminum_eos", [])]
_GUESS = {1: [5, 1, 1], 2: [9, .5, .5], 3: [50, 1, .5]}
_bb = []
for _e in _EOS:
    for _g in (1, 2, 3):
        _bb.append(PSet(dict(geometry=_g), P1(.01, 1.), [.6, .3], eos=_e, guess=_GUESS[_g]))
_bb.append(PSet(dict(geometry=1), P1(.01, 1.), [.6], eos=("stiffened_gas_eos", []), guess=[5, 1, 1],
                ic={'velocity': -2, 'density': 3, 'pressure': 1}))
_fam("nohblackbox", ["nohblackboxeos.blackboxnoh.NohBlackBoxEos", "nohblackboxeos.blackboxnoh.PlanarNohBlackBox",
                     "nohblackboxeos.blackboxnoh.CylindricalNohBlackBox", "nohblackboxeos.blackboxnoh.SphericalNohBlackBox"], _bb)

BB_SYMMETRY = {1: 0, 2: 1, 3: 2}

_fam("probe_values", ["verif.probe.ProbeValues"], [PSet(dict(), P1(0., 1.), [1.0, 0.5]), PSet(dict(k=5), P1(0., 1.), [3.0]),
                                                     PSet(dict(k=11), P1(0., 1.), [1e-3])], internal=True)
_fam("probe", ["verif.probe.ProbeSolver"], [PSet(dict(b=2.0), P1(0., 1.), [1.0]), PSet(dict(a=0.5, b=-1.0), P1(0., 1.), [2.0])], internal=True)


# ---------------------------------------------------------------------------------------------
# cog: class defaults +- deterministic perturbation of continuous parameters (built from the census)
# ---------------------------------------------------------------------------------------------
def build_cog(census):
    groups = {}
    for q in sorted(census):
        if ".cog." not in q:
            continue
        mod = q.split(".")[3]  # cog1, cog2, ...
        groups.setdefault(mod, []).append(q)
    for mod, quals in sorted(groups.items()):
        base = None
        for q in quals:
            n = q.split(".")[-1]
            if not n.startswith(("Planar", "Cylindrical", "Spherical")) and "geometry" in census[q].parameters:
                base = q
        if base is None:
            base = quals[0]
        cls = census[base]
        defaults = {}
        for p in cls.parameters:
            if hasattr(cls, p):
                defaults[p] = getattr(cls, p)
        need = {p: 40. for p in cls.parameters if not hasattr(cls, p)}  # Cog11: Gamma has no default
        cont = [p for p, v in sorted(defaults.items()) if isinstance(v, float) and p != "geometry"]
        pool = []
        geos = [3, 2, 1] if "geometry" in cls.parameters else [None]
        for i, g in enumerate(geos):
            kw = dict(need)
            if g is not None:
                kw["geometry"] = g
            if i > 0:
                for j, p in enumerate(cont):
                    kw[p] = defaults[p] * (1.0 + 0.07 * (1 if (i + j) % 2 else -1))
            pool.append(PSet(kw, P1(.1, 1.1), [.6, .3] if i else [.6, 0., -1.]))
        _fam(mod, [q[len("exactpack.solvers."):] for q in quals], pool)


def family_of(qual, cls=None):
    short = qual[len("exactpack.solvers."):] if qual.startswith("exactpack.solvers.") else qual
    for f in FAMILIES.values():
        if short in f.classes:
            return f
    # a class the family lists do not name (added after they were written): the family of its nearest listed base class
    if cls is None:
        try:
            from . import world
            cls = world.CENSUS.get(qual)
        except Exception:
            cls = None
    if cls is not None:
        for base in cls.__mro__[1:]:
            bq = base.__module__ + "." + base.__name__
            bshort = bq[len("exactpack.solvers."):] if bq.startswith("exactpack.solvers.") else bq
            for f in FAMILIES.values():
                if bshort in f.classes:
                    return f
    return None


def fixed_geometry(cls):
    """Geometry wrappers have a class-level geometry that is not a parameter."""
    if "geometry" in getattr(cls, "parameters", {}):
        return None
    return getattr(cls, "geometry", None)


def pool_for(qual, cls):
    """Pool entries usable with this class: (index into family pool, kwargs adapted to the class)."""
    fam = family_of(qual)
    if fam is None:
        return None, []
    g = fixed_geometry(cls)
    out = []
    for i, ps in enumerate(fam.pool):
        kw = dict(ps.kwargs)
        if fam.name == "nohblackbox":
            pg = kw.pop("geometry", 3)
            if cls.__name__ == "NohBlackBoxEos":
                out.append((i, {"geometry": pg}))
            elif g == pg:
                out.append((i, {}))
            continue
        if g is not None:
            pg = kw.pop("geometry", None)
            if pg is not None and pg != g:
                continue
            kw = {k: v for k, v in kw.items() if k in cls.parameters}
        out.append((i, kw))
    if not out and fam.pool:
        kw = {k: v for k, v in fam.pool[0].kwargs.items() if k in cls.parameters and k != "geometry"}
        out.append((0, kw))
    return fam, out


def build_geometry_variants(census):
    """Same parameters, other geometry: a cache keyed on gamma but not on the geometry needs exactly this pair."""
    n = 0
    for fam in list(FAMILIES.values()):
        if fam.internal or fam.name == "nohblackbox":
            continue
        q = "exactpack.solvers." + fam.classes[0]
        cls = census.get(q)
        if cls is None or "geometry" not in getattr(cls, "parameters", {}):
            continue
        base = dict(fam.pool[0].kwargs)
        g0 = base.get("geometry", getattr(cls, "geometry", None))
        have = {tuple(sorted((k, repr(v)) for k, v in ps.kwargs.items())) for ps in fam.pool}
        for g in (1, 2, 3):
            if g == g0:
                continue
            kw = dict(base, geometry=g)
            sig = tuple(sorted((k, repr(v)) for k, v in kw.items()))
            if sig in have:
                continue
            fam.pool.append(PSet(kw, fam.pool[0].pts, fam.pool[0].times, note="auto:geometry"))
            n += 1
    return n


def build_near_variants(census):
    """Nearly equal parameters (relative 2**-40): a cache keyed on rounded, formatted or float32 parameters needs
    two parameter sets that such a key cannot tell apart."""
    n = 0
    for fam in list(FAMILIES.values()):
        if fam.internal or fam.name == "nohblackbox" or fam.cost == "heavy":
            continue
        q = "exactpack.solvers." + fam.classes[0]
        cls = census.get(q)
        if cls is None:
            continue
        base = dict(fam.pool[0].kwargs)
        floats = [p for p in sorted(cls.parameters) if isinstance(base.get(p, getattr(cls, p, None)), float)
                  and not isinstance(base.get(p, getattr(cls, p, None)), bool) and base.get(p, getattr(cls, p, None)) != 0.0]
        for p in floats[:2]:
            d = base.get(p, getattr(cls, p, None))
            kw = dict(base)
            kw[p] = d * (1.0 + 2.0 ** -40)
            fam.pool.append(PSet(kw, fam.pool[0].pts, fam.pool[0].times, note="auto:near:" + p))
            n += 1
    return n


def build_auto(path):
    """Append the committed one-at-a-time parameter variants (auto_pool.json) to the family pools."""
    import json
    import os
    from .codec import dec
    if not os.path.exists(path):
        return 0
    with open(path) as f:
        data = json.load(f)["families"]
    n = 0
    for fname, variants in sorted(data.items()):
        fam = FAMILIES.get(fname)
        if fam is None:
            continue
        for v in variants:
            fam.pool.append(PSet(dec(v["kwargs"]), fam.pool[0].pts, fam.pool[0].times, note="auto:" + v["param"]))
            n += 1
    return n
