"""Process environment: one fixed, replayable interpreter configuration.

Every entry point calls :func:`ensure_env` first.  If the interpreter was not
started with the fixed environment it re-executes itself, so that hash
randomisation, BLAS thread pools and the matplotlib backend can never differ
between a run and its replay.
"""
import os
import sys

FIXED = {
    "PYTHONHASHSEED": "0",
    "OPENBLAS_NUM_THREADS": "1",
    "OMP_NUM_THREADS": "1",
    "MKL_NUM_THREADS": "1",
    "MPLBACKEND": "Agg",
    "PYTHONDONTWRITEBYTECODE": "1",
}

VERIF_ROOT = os.path.dirname(os.path.dirname(os.path.abspath(__file__)))


def src_root():
    """Directory that contains the ``exactpack`` package under test (default /repo)."""
    return os.path.abspath(os.environ.get("EXACTPACK_SRC", "/repo"))


def ensure_env(module=None):
    """Re-exec with the fixed environment unless it is already in force.

    ``PYTHONHASHSEED`` may be overridden for the determinism self-test through
    ``VERIF_HASHSEED`` (the self-test wants to show that *no* choice depends on it).
    """
    want = dict(FIXED)
    if os.environ.get("VERIF_HASHSEED"):
        want["PYTHONHASHSEED"] = os.environ["VERIF_HASHSEED"]
    if any(os.environ.get(k) != v for k, v in want.items()):
        env = dict(os.environ)
        env.update(want)
        if module is None:
            argv = [sys.executable] + sys.argv
        else:
            argv = [sys.executable, "-m", module] + sys.argv[1:]
        sys.stdout.flush()
        sys.stderr.flush()
        os.execve(sys.executable, argv, env)
    root = src_root()
    if root in sys.path:
        sys.path.remove(root)
    sys.path.insert(0, root)
    if VERIF_ROOT not in sys.path:
        sys.path.insert(1, VERIF_ROOT)


def seed_from_env(default=20260925):
    try:
        return int(os.environ.get("VERIF_SEED", default))
    except ValueError:
        return default
