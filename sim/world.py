"""The pristine image: ExactPack fully imported, seams installed, nothing constructed.

* census of solver classes (by introspection),
* the seams of DESIGN.md §1.1(g),(h),(e): scipy names, numpy allocation alias, ``open`` in exactpack.base,
* ``infork``: run a function in fork(pristine image) and ship the pickled result back.

Nothing here draws random numbers or reads a clock for a decision.
"""
import errno
import importlib
import inspect
import io
import os
import pickle
import pkgutil
import select
import signal
import sys
import time
import types
import warnings

from .env import src_root

_loaded = False
MODS = []          # every exactpack.* module (base + solvers)
CENSUS = {}        # qualified name -> class
np = None


# --------------------------------------------------------------------------------------
# seam state (one object; reset per operation by the executor)
# --------------------------------------------------------------------------------------
class InjectedFault(Exception):
    """Marker mixin: exceptions raised by the simulator carry this as a second base."""


def _injected(exc_type):
    name = "Injected" + exc_type.__name__
    return type(name, (exc_type, InjectedFault), {})


INJECTED = {}


def injected_exc(kind):
    base = {"RuntimeError": RuntimeError, "ValueError": ValueError, "OSError": OSError,
            "ZeroDivisionError": ZeroDivisionError, "MemoryError": MemoryError,
            "FloatingPointError": FloatingPointError, "OverflowError": OverflowError}[kind]
    if kind not in INJECTED:
        INJECTED[kind] = _injected(base)
    return INJECTED[kind]


class SeamState:
    def __init__(self):
        self.reset_run()

    def reset_run(self):
        self.alloc_pattern = 0.0
        self.alloc_hits = 0
        self.dep_total = 0
        self.dep_names = {}
        self.reset_op()
        self.streams = {}        # path -> SimRaw (in-memory devices of this run)
        self.stream_plan = None  # fault plan for the next open() of a sim:// path
        self.devnull_fail = False
        self.devnull_failed = 0
        self.devnull_opens = 0
        self.text_buffer = 8192
        self.open_handles = []

    def reset_op(self):
        self.oom_count = 0
        self.oom_fire = None     # k-th numpy allocation of this op raises MemoryError
        self.oom_fired = None
        self.dep_count = 0
        self.dep_fire = None     # k-th seam call of this op raises
        self.dep_mode = "before"
        self.dep_exc = "RuntimeError"
        self.dep_fired = None

    def hit(self, name):
        self.dep_count += 1
        self.dep_total += 1
        self.dep_names[name] = self.dep_names.get(name, 0) + 1
        if self.dep_fire is not None and self.dep_count == self.dep_fire and self.dep_mode == "before":
            self.dep_fired = name
            raise injected_exc(self.dep_exc)("injected failure in %s (seam call %d)" % (name, self.dep_count))
        return self.dep_fire is not None and self.dep_count == self.dep_fire and self.dep_mode == "after"

    def after(self, name):
        self.dep_fired = name
        raise injected_exc(self.dep_exc)("injected failure after %s (seam call %d)" % (name, self.dep_count))


SEAM = SeamState()

_SEAM_PREFIXES = ("scipy.optimize", "scipy.integrate", "scipy.interpolate")


def _is_seam_callable(v):
    mod = str(getattr(v, "__module__", "") or "")
    return callable(v) and mod.startswith(_SEAM_PREFIXES)


class _OdeProxy(object):
    """Instance proxy for scipy.integrate.ode: ``integrate`` is a seam call; chained setters keep the proxy."""

    def __init__(self, real, name):
        object.__setattr__(self, "_r", real)
        object.__setattr__(self, "_n", name)

    def __getattr__(self, k):
        v = getattr(self._r, k)
        if k == "integrate":
            real, name = self._r, self._n

            def integrate(*a, **kw):
                post = SEAM.hit(name + ".integrate")
                out = v(*a, **kw)
                if post:
                    SEAM.after(name + ".integrate")
                return out
            return integrate
        if callable(v) and k in ("set_integrator", "set_initial_value", "set_f_params", "set_jac_params", "set_solout"):
            me = self

            def chained(*a, **kw):
                out = v(*a, **kw)
                return me if out is me._r else out
            return chained
        return v

    def __setattr__(self, k, val):
        setattr(self._r, k, val)


_wrap_cache = {}


def _wrap(f, name):
    key = (id(f), name)
    w = _wrap_cache.get(key)
    if w is not None:
        return w
    is_ode = name.endswith(".ode")

    def w(*a, **kw):
        post = SEAM.hit(name)
        out = f(*a, **kw)
        if post:
            SEAM.after(name)
        if is_ode:
            return _OdeProxy(out, name)
        return out
    w.__wrapped__ = f
    w.__name__ = getattr(f, "__name__", "seam")
    w.__doc__ = getattr(f, "__doc__", None)
    _wrap_cache[key] = w
    return w


class _ModProxy(object):
    def __init__(self, mod):
        object.__setattr__(self, "_m", mod)
        object.__setattr__(self, "_c", {})

    def __getattr__(self, k):
        c = self._c
        if k in c:
            return c[k]
        v = getattr(self._m, k)
        if isinstance(v, types.ModuleType):
            if v.__name__.split(".")[0] == "scipy":
                v = _ModProxy(v)
        elif _is_seam_callable(v):
            v = _wrap(v, self._m.__name__ + "." + k)
        c[k] = v
        return v


class _NpProxy(object):
    """Stands in for a module's ``np``/``numpy`` alias; only the uninitialised allocators differ."""

    def __init__(self, real):
        object.__setattr__(self, "_np", real)

    def __getattr__(self, k):
        v = getattr(self._np, k)
        # cache plain attributes on the instance so later lookups bypass __getattr__
        if k not in ("empty", "empty_like"):
            try:
                object.__setattr__(self, k, v)
            except Exception:
                pass
        return v

    def _fill(self, out):
        SEAM.alloc_hits += 1
        pat = SEAM.alloc_pattern
        kind = out.dtype.kind
        if kind in "fc":
            out[...] = pat
        elif kind in "iu":
            out[...] = 0 if pat != pat else int(max(-2**31, min(2**31 - 1, pat)))
        elif kind == "b":
            out[...] = bool(pat)
        elif kind == "O":
            out[...] = None
        return out

    def _site(self, name):
        """An allocation site: the k-th one of an operation may fail (fault F8, MemoryError)."""
        SEAM.oom_count += 1
        if SEAM.oom_fire is not None and SEAM.oom_count == SEAM.oom_fire:
            SEAM.oom_fired = name
            raise injected_exc("MemoryError")("injected allocation failure in numpy.%s (allocation %d)" % (name, SEAM.oom_count))

    def empty(self, *a, **kw):
        self._site("empty")
        return self._fill(self._np.empty(*a, **kw))

    def empty_like(self, *a, **kw):
        self._site("empty_like")
        return self._fill(self._np.empty_like(*a, **kw))


def _alloc_method(name):
    def m(self, *a, **kw):
        self._site(name)
        return getattr(self._np, name)(*a, **kw)
    m.__name__ = name
    return m


for _n in ("zeros", "zeros_like", "ones", "ones_like", "full", "full_like", "linspace", "arange", "array", "copy", "concatenate", "append", "meshgrid"):
    setattr(_NpProxy, _n, _alloc_method(_n))


# --------------------------------------------------------------------------------------
# stream seam: real CPython text/buffer layers on top of a simulated raw device
# --------------------------------------------------------------------------------------
class SimRaw(io.RawIOBase):
    """In-memory raw device with a fault plan.

    plan keys (all optional): ``fail_at_byte`` (ENOSPC/EIO once that many bytes were accepted; a write
    crossing the limit is accepted short first), ``fail_write_call`` (k-th raw write raises),
    ``short`` (accept at most that many bytes per raw write), ``fail_close`` (close raises after
    releasing the device, and the last raw write is lost: a deferred write error), ``errno`` name.
    """

    def __init__(self, path, plan=None):
        super().__init__()
        self.path = path
        self.plan = dict(plan or {})
        self.data = bytearray()
        self.writes = 0
        self.fired = []
        self.released = False
        self.last_write_start = 0

    def writable(self):
        return True

    def _err(self, where):
        self.fired.append(where)
        code = getattr(errno, self.plan.get("errno", "ENOSPC"))
        return OSError(code, os.strerror(code) + " (injected at %s)" % where)

    def write(self, b):
        if self.closed:
            raise ValueError("write to closed file")
        self.writes += 1
        b = bytes(b)
        k = self.plan.get("fail_write_call")
        if k is not None and self.writes == k:
            raise self._err("write#%d" % k)
        lim = self.plan.get("fail_at_byte")
        n = len(b)
        short = self.plan.get("short")
        if short:
            n = min(n, short)
        if lim is not None:
            room = lim - len(self.data)
            if room <= 0:
                raise self._err("byte%d" % lim)
            n = min(n, room)
        self.last_write_start = len(self.data)
        self.data += b[:n]
        return n

    def close(self):
        if self.closed:
            return
        super().close()
        self.released = True
        if self.plan.get("fail_close"):
            # a deferred write error reported by close() (NFS, quota): the data of the last raw write never made it
            del self.data[self.last_write_start:]
            raise self._err("close")


_real_open = open


def sim_open(file, mode="r", *args, **kwargs):
    """Replacement for the builtin ``open`` seen by ``exactpack.base``."""
    if isinstance(file, str) and file.startswith("sim://"):
        plan = SEAM.stream_plan or {}
        SEAM.stream_plan = None
        if plan.get("fail_open"):
            code = getattr(errno, plan.get("errno", "ENOSPC"))
            SEAM.streams[file] = None
            SEAM.open_fired = True
            raise OSError(code, os.strerror(code) + " (injected at open)", file)
        if "r" in mode and "+" not in mode:
            raise ValueError("sim:// devices are write-only")
        old = SEAM.streams.get(file)
        if "x" in mode and old is not None:
            raise FileExistsError(errno.EEXIST, os.strerror(errno.EEXIST), file)
        raw = SimRaw(file, plan)
        if "a" in mode and old is not None:
            raw.data += old.data       # append mode keeps what an earlier dump to the same path wrote
        SEAM.streams[file] = raw
        SEAM.open_handles.append(raw)
        buf = io.BufferedWriter(raw, buffer_size=max(1, int(SEAM.text_buffer)))
        return io.TextIOWrapper(buf, encoding=kwargs.get("encoding") or "utf-8", newline=kwargs.get("newline"))
    if file == os.devnull:
        SEAM.devnull_opens += 1
    if file == os.devnull and SEAM.devnull_fail:
        SEAM.devnull_fail = False
        SEAM.devnull_failed += 1
        raise OSError(errno.EMFILE, os.strerror(errno.EMFILE) + " (injected)", file)
    return _real_open(file, mode, *args, **kwargs)


# --------------------------------------------------------------------------------------
def load():
    """Import everything once; install seams; build the census.  Idempotent."""
    global _loaded, np
    if _loaded:
        return
    warnings.simplefilter("ignore")
    import numpy
    np = numpy
    import exactpack
    import exactpack.base
    import exactpack.solvers
    root = src_root()
    assert os.path.abspath(exactpack.__file__).startswith(root + os.sep), \
        "exactpack imported from %s, expected under %s" % (exactpack.__file__, root)
    MODS.append(exactpack.base)
    failed = []
    for mi in sorted(pkgutil.walk_packages(exactpack.solvers.__path__, "exactpack.solvers."), key=lambda m: m.name):
        try:
            MODS.append(importlib.import_module(mi.name))
        except Exception as e:  # an import failure is reported by the checks, not hidden
            failed.append((mi.name, repr(e)))
    from exactpack.base import ExactSolver
    for m in MODS:
        for n, o in sorted(vars(m).items()):
            if inspect.isclass(o) and issubclass(o, ExactSolver) and o is not ExactSolver and o.__module__ == m.__name__:
                CENSUS[o.__module__ + "." + n] = o
    _define_probe(ExactSolver)
    install_seams()
    load.import_failures = failed
    _loaded = True


def _define_probe(ExactSolver):
    """A two-parameter solver defined by the harness: exercises the base-class parameter check
    (base.py ExactSolver.__init__) with a parameter that has no class-level default."""
    from exactpack.base import ExactSolution

    class ProbeSolver(ExactSolver):
        """Harness probe solver."""
        parameters = {"a": "a parameter with a default", "b": "a parameter without a default"}
        a = 1.5

        def _run(self, r, t):
            return ExactSolution([r, r * self.a + self.b * t], names=["position", "value"], jumps=[])
    ProbeSolver.__module__ = "verif.probe"
    CENSUS["verif.probe.ProbeSolver"] = ProbeSolver

    class ProbeValues(ExactSolver):
        """Harness probe solver whose fields carry the values the CSV clause has to survive: signed zero, subnormal
        and huge magnitudes, non-finite values, integers, complex numbers, strings (incl. separators and quotes) and
        None -- everything some ExactPack solver returns today or could return.  Exercises ExactSolution.dump only."""
        parameters = {"k": "rotation of the value table"}
        k = 0
        FLOATS = [-0.0, 0.0, 5e-324, -5e-324, 2.2250738585072014e-308, 1.7976931348623157e308, -1.7976931348623157e308,
                  float("nan"), float("inf"), float("-inf"), 0.1 + 0.2, 1.0 / 3.0, 2.0 / 3.0, 1e-7, 123456789.12345679,
                  1e16, 1e22, 1e23, 9007199254740993.0, 0.30000000000000004, 4.35, 1e-5, 5e-5]
        STRINGS = ["I", "0H", "a,b", 'q"uote', " lead", "", "line\nbreak", "III"]

        def _run(self, r, t):
            import numpy as _np
            n = len(r)
            k = int(self.k)
            f = _np.array([self.FLOATS[(i + k) % len(self.FLOATS)] for i in range(n)])
            ints = _np.array([(-1) ** i * (2 ** (i % 62)) for i in range(n)], dtype=_np.int64)
            z = _np.array([complex(self.FLOATS[(i + k) % len(self.FLOATS)], -0.0 if i % 2 else 1.5) for i in range(n)])
            s = _np.array([self.STRINGS[(i + k) % len(self.STRINGS)] for i in range(n)])
            o = _np.array([None if i % 3 == 0 else self.STRINGS[(i + k) % len(self.STRINGS)] for i in range(n)], dtype=object)
            return ExactSolution([r, f, ints, z, s, o, f * t],
                                 names=["position", "value", "count", "amplitude", "region", "tag", "value scaled"], jumps=[])
    ProbeValues.__module__ = "verif.probe"
    CENSUS["verif.probe.ProbeValues"] = ProbeValues


load.import_failures = []
SEAM_STATS = {"functions": 0, "module_aliases": 0, "np_aliases": 0}


def install_seams():
    import numpy
    import exactpack.base
    npx = _NpProxy(numpy)
    for m in MODS:
        for k, v in sorted(vars(m).items()):
            if k.startswith("__"):
                continue
            if v is numpy:
                setattr(m, k, npx)
                SEAM_STATS["np_aliases"] += 1
            elif isinstance(v, types.ModuleType) and v.__name__.split(".")[0] == "scipy":
                if v.__name__ == "scipy" or v.__name__.startswith(_SEAM_PREFIXES):
                    setattr(m, k, _ModProxy(v))
                    SEAM_STATS["module_aliases"] += 1
            elif not isinstance(v, types.ModuleType) and _is_seam_callable(v) and not (
                    inspect.isclass(v) and issubclass(v, BaseException)):
                setattr(m, k, _wrap(v, str(v.__module__) + "." + k))
                SEAM_STATS["functions"] += 1
    exactpack.base.open = sim_open


def in_src(filename):
    return filename.startswith(src_root() + os.sep + "exactpack" + os.sep)


# --------------------------------------------------------------------------------------
# fork helpers
# --------------------------------------------------------------------------------------
class ChildFailure(Exception):
    """The forked child died, timed out or could not report: a HARNESS condition, never a verdict."""


def infork(fn, timeout=600.0):
    """Run ``fn()`` in a fork of this process; return its (picklable) result.

    Raises ChildFailure on crash / timeout.  ``fn`` exceptions are returned as ('exc', type, msg).
    """
    r, w = os.pipe()
    sys.stdout.flush()
    sys.stderr.flush()
    pid = os.fork()
    if pid == 0:
        code = 0
        try:
            os.close(r)
            try:
                out = ("ok", fn())
            except BaseException as e:  # noqa
                import traceback
                out = ("exc", type(e).__name__, str(e)[:500], traceback.format_exc()[-2000:])
            try:
                data = pickle.dumps(out, protocol=4)
            except Exception as e:
                data = pickle.dumps(("exc", "PickleError", repr(e)[:300], ""), protocol=4)
            with os.fdopen(w, "wb") as f:
                f.write(data)
        except BaseException:
            code = 3
        finally:
            os._exit(code)
    os.close(w)
    chunks = []
    deadline = time.monotonic() + timeout
    timed_out = False
    try:
        while True:
            left = deadline - time.monotonic()
            if left <= 0:
                timed_out = True
                break
            rl, _, _ = select.select([r], [], [], min(left, 5.0))
            if not rl:
                continue
            b = os.read(r, 1 << 20)
            if not b:
                break
            chunks.append(b)
    finally:
        os.close(r)
    if timed_out:
        try:
            os.kill(pid, signal.SIGKILL)
        except ProcessLookupError:
            pass
        os.waitpid(pid, 0)
        raise ChildFailure("timeout after %.0fs" % timeout)
    _, status = os.waitpid(pid, 0)
    data = b"".join(chunks)
    if not data:
        raise ChildFailure("child died without a report (status %r)" % (status,))
    try:
        out = pickle.loads(data)
    except Exception as e:
        raise ChildFailure("unreadable report: %r" % (e,))
    return out
