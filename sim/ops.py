"""Operation executor: runs an explicit operation list (plus an explicit fault list) against real
ExactPack objects inside the current process (always a fork of the pristine image).

The executor is the *only* code path that touches ExactPack: histories, references, replays and
shrinking candidates all go through :func:`run_history`, so they cannot disagree about how an
operation is performed.
"""
import gc
import hashlib
import os
import pickle
import resource
import sys

from . import world
from .codec import dec
from .world import SEAM

CONTAINERS_1D = ["nd", "list", "tuple", "ro", "strided"]
CONTAINERS_ND = ["nd", "list", "ltup", "tuple", "ro", "strided", "fortran"]
CONTAINERS_2N = ["nd", "list", "tup_arrays", "ro", "fortran"]


def containers_for(layout):
    return {"N": CONTAINERS_1D, "Nd": CONTAINERS_ND, "2N": CONTAINERS_2N}[layout]


def make_container(a, kind):
    np = world.np
    a = np.array(a, dtype=float)
    if kind == "nd":
        return np.array(a, order="C")
    if kind == "list":
        return a.tolist()
    if kind == "ltup":
        return [tuple(row) for row in a.tolist()]
    if kind == "tuple":
        if a.ndim == 1:
            return tuple(a.tolist())
        return tuple(tuple(row) for row in a.tolist())
    if kind == "tup_arrays":
        return tuple(np.array(row) for row in a)
    if kind == "ro":
        b = np.array(a, order="C")
        b.flags.writeable = False
        return b
    if kind == "strided":
        if a.ndim == 1:
            big = np.full(2 * len(a) + 1, -777.25)
            v = big[1::2][:len(a)]
            v[...] = a
            return v
        big = np.full((a.shape[0], 2 * a.shape[1]), -777.25)
        v = big[:, ::2]
        v[...] = a
        return v
    if kind == "fortran":
        return np.asfortranarray(a)
    if kind == "ilist":      # integer-valued points written the natural way: [0, 1, 2]
        return np.rint(a).astype(int).tolist()
    if kind == "iarr":       # ... or as np.arange(...)
        return np.rint(a).astype(np.int64)
    raise ValueError(kind)


def digest_container(c):
    np = world.np
    if isinstance(c, np.ndarray):
        # bytes, shape, dtype and the writeable flag: a caller whose array has become read-only has had its input modified
        return hashlib.md5(np.ascontiguousarray(c).tobytes() + str(c.shape).encode() + str(c.dtype).encode()
                           + (b"W" if c.flags.writeable else b"R")).hexdigest()
    if isinstance(c, tuple) and c and isinstance(c[0], np.ndarray):
        return hashlib.md5(b"|".join(np.ascontiguousarray(x).tobytes() + (b"W" if x.flags.writeable else b"R") for x in c)).hexdigest()
    return hashlib.md5(repr(c).encode()).hexdigest()


def sol_outcome(sol):
    np = world.np
    names = tuple(sol.dtype.names or ())
    fields = []
    for n in names:
        a = np.asarray(sol[n])
        if a.dtype.kind == "O":
            fields.append((str(a.dtype), tuple(a.shape), repr(a.tolist()).encode()))
        else:
            fields.append((str(a.dtype), tuple(a.shape), np.ascontiguousarray(a).tobytes()))
    try:
        jumps = repr(sol.jumps)
    except Exception as e:  # noqa
        jumps = "unreprable:" + type(e).__name__
    return ("ok", names, tuple(fields), jumps, type(sol).__module__ + "." + type(sol).__name__, len(sol))


def digest_solution(sol):
    o = sol_outcome(sol)
    h = hashlib.md5()
    h.update(repr(o[1]).encode())
    for f in o[2]:
        h.update(f[2])
    return h.hexdigest()


class Tracer(object):
    """Counts the points of an operation at which CPython can really deliver an asynchronous exception
    (KeyboardInterrupt from SIGINT) inside ExactPack code, and optionally aborts at the n-th.

    CPython 3.12 polls for pending signals on function entry (RESUME), after a call returns and on loop back-edges --
    not between arbitrary lines.  A first version aborted at arbitrary *line* events and raised a false alarm: an abort
    on the re-traced ``with`` line at the normal exit of ``print_when_verbose``'s ``with open(devnull) as f,
    redirect_stdout(f)`` skipped redirect_stdout.__exit__ but not the file's, leaving sys.stdout closed -- a window in
    which no real interrupt can arrive.  The abort points are therefore profile events: entry of a Python function
    defined in ExactPack ('call'), its return ('return': the callee completed, the caller never sees the value), and
    the return of a C function called from ExactPack code ('c_return').  Callbacks that scipy's Fortran makes into
    ExactPack functions are 'call' events like any other.
    """

    def __init__(self, abort_at=None):
        self.n = 0
        self.abort_at = abort_at
        self.where = None
        self.fired = False
        self.prefix = world.src_root() + os.sep + "exactpack" + os.sep

    def prof(self, frame, event, arg):
        if event not in ("call", "return", "c_return"):
            return
        if not frame.f_code.co_filename.startswith(self.prefix):
            return
        self.n += 1
        if self.abort_at is not None and self.n == self.abort_at and not self.fired:
            self.fired = True
            self.where = (frame.f_code.co_filename[len(self.prefix):], frame.f_lineno,
                          frame.f_code.co_name + ":" + event + (":" + getattr(arg, "__name__", "?") if event == "c_return" else ""))
            raise KeyboardInterrupt("injected abort at interrupt point %d" % self.n)


class Env(object):
    def __init__(self):
        self.objs = {}
        self.eos = {}
        self.ics = {}
        self.bufs = {}       # id -> container
        self.buf_dig = {}    # id -> expected digest
        self.sols = {}       # id -> solution
        self.sol_dig = {}    # id -> expected digest (absent once the owner scribbled on it)
        self.scratch = None
        self.files = []
        self.shared_lists = {}
        self.buf_kind = {}
        self.obj_eos = {}    # solver object id -> EOS object id (an EOS is released with its last solver)
        self.obj_ic = {}
        self.freed = {}      # address -> release number; addresses of solver objects this run has released (F6: address reuse is steered, not left to luck)
        self.addr_reused = 0
        self.addr_steered = 0


def _mk_eos(spec):
    from exactpack.solvers.nohblackboxeos import equations_of_state as E
    return getattr(E, spec["cls"])(*dec(spec.get("args", [])))


def _do_new(env, op):
    cls = world.CENSUS[op["cls"]]
    kw = dec(op.get("kw", {"d": []}))
    # a caller script reuses its list-valued parameter objects: equal list values are the same list object for every
    # constructor of the run (a solver that sorts, extends or rescales such a list in place then shows up in H1)
    for k in sorted(kw):
        if isinstance(kw[k], list):
            key = (k, repr(kw[k]))
            if key in env.shared_lists:
                kw[k] = env.shared_lists[key]
            else:
                env.shared_lists[key] = kw[k]
    args = []
    if "eos" in op:
        es = op["eos"]
        if es["id"] not in env.eos:
            env.eos[es["id"]] = _mk_eos(es)
        args.append(env.eos[es["id"]])
        env.obj_eos[op["obj"]] = es["id"]
        if "ic" in op:
            env.obj_ic[op["obj"]] = op["ic"]["id"]
            ics = op["ic"]
            if ics["id"] not in env.ics:
                env.ics[ics["id"]] = dec(ics["val"])
            args.append(env.ics[ics["id"]])
    env.objs[op["obj"]] = None
    obj = _steer(env, cls)
    if obj is None:
        obj = cls(*args, **kw)
    else:
        obj.__init__(*args, **kw)      # what type.__call__ does after __new__ (only taken for plain classes, see _steer)
    if id(obj) in env.freed:
        del env.freed[id(obj)]
        env.addr_reused += 1
    env.objs[op["obj"]] = obj
    return ("ok",)


def _steer(env, cls):
    """F6, address reuse: whether a new solver lands on the address of a dead one depends on the allocator's free
    lists, i.e. on everything the forking parent did before -- a source of nondeterminism the run must own (a first
    version that left it to the allocator found an id()-keyed table in one run out of a thousand and could not replay
    it).  Blank instances are allocated, and kept so that they occupy the blocks that are not wanted, until one sits
    on the address of a solver this run has released; that instance is then initialised exactly as type.__call__ would
    (``cls.__new__(cls)`` followed by ``__init__``; classes whose metaclass overrides ``__call__`` or that have their own ``__new__`` are constructed
    the ordinary way).  Nothing observable may depend on the outcome on a tree where the property holds, so the outcome
    is a reach counter in the run's tail, never part of the event log."""
    if not env.freed or type(cls).__call__ is not type.__call__ or cls.__new__ is not object.__new__ or "__del__" in dir(cls):
        return None
    fillers = []
    hits = []
    for _ in range(STEER_MAX):
        f = object.__new__(cls)
        (hits if id(f) in env.freed else fillers).append(f)
        if len(hits) == len(env.freed):
            break
    if not hits:
        return None
    # of the released addresses that can be had, the one released last
    hit = max(hits, key=lambda f: env.freed[id(f)])
    env.addr_steered += 1
    del fillers, hits
    return hit


STEER_MAX = 256


def _do_cfg(env, op):
    obj = env.objs.get(op["obj"])
    if obj is None:
        return ("noobj",)
    getattr(obj, op["m"])(*dec(op.get("a", [])))
    return ("ok",)


def _do_aux(env, op):
    """A documented helper method of a solver object other than __call__ (SDRZ.run_tvec, the radiative-shock
    setup_solver): it is not configuration, so it is NOT part of the object's reference chain -- later calls must
    behave as if it had not happened -- and its own result is compared with the fresh one like a call's."""
    np = world.np
    obj = env.objs.get(op["obj"])
    if obj is None:
        return ("noobj",)
    res = getattr(obj, op["m"])(*dec(op.get("a", [])), **dec(op.get("k", {"d": []})))
    if hasattr(res, "dtype") and getattr(res.dtype, "names", None):
        return sol_outcome(res)
    return ("ok", repr(type(res)))


def _do_call(env, op):
    np = world.np
    obj = env.objs.get(op["obj"])
    data = dec(op["pts"])
    bid = op["buf"]
    cont = op.get("cont", "nd")
    old = env.bufs.get(bid)
    if old is not None and isinstance(old, np.ndarray) and cont in ("nd", "ro", "strided", "fortran") \
            and old.shape == data.shape:
        # the caller refills the very same ndarray object with new points; a read-only container stays one (its owner
        # lifts the protection for the refill), a container that was created writable is simply written
        was = old.flags.writeable
        if not was:
            old.flags.writeable = True
        old[...] = data
        if not was and env.buf_kind.get(bid) == "ro":
            old.flags.writeable = False
        c = old
    else:
        c = make_container(data, cont)
        env.bufs[bid] = c
        env.buf_kind[bid] = cont
    env.buf_dig[bid] = digest_container(c)
    if obj is None:
        return ("noobj",)
    t = float.fromhex(op["t"])
    sol = obj(c, t)
    env.sols[op["sol"]] = sol
    env.sol_dig[op["sol"]] = digest_solution(sol)
    return sol_outcome(sol)


def _junk(shape, mode):
    np = world.np
    n = int(np.prod(shape)) if shape else 1
    if mode == "nan":
        return np.full(shape, np.nan)
    if mode == "zero":
        return np.zeros(shape)
    return (1.0e3 + np.arange(n, dtype=float) * 1.0625).reshape(shape)


def _do_scribble(env, op):
    np = world.np
    tid = op["target"]
    mode = op.get("mode", "junk")
    if tid in env.bufs:
        c = env.bufs[tid]
        if isinstance(c, np.ndarray):
            was = c.flags.writeable
            if not was:
                c.flags.writeable = True
            c[...] = _junk(c.shape, mode)
            if not was:
                c.flags.writeable = False
        elif isinstance(c, list):
            def fill(lst, k=[0]):
                for i, x in enumerate(lst):
                    if isinstance(x, list):
                        fill(x)
                    elif isinstance(x, tuple):
                        lst[i] = tuple(1.0e3 + j for j in range(len(x)))
                    else:
                        k[0] += 1
                        lst[i] = 1.0e3 + k[0]
            fill(c)
        elif isinstance(c, tuple) and c and isinstance(c[0], np.ndarray):
            for x in c:
                x[...] = _junk(x.shape, mode)
        env.buf_dig[tid] = digest_container(c)
        return ("ok",)
    if tid in env.sols:
        sol = env.sols[tid]
        for n in sol.dtype.names:
            a = sol[n]
            if np.asarray(a).dtype.kind == "f":
                a[...] = _junk(np.asarray(a).shape, mode)
        env.sol_dig.pop(tid, None)
        return ("ok",)
    return ("notarget",)


def _released(env, obj):
    if len(env.freed) >= 16:
        del env.freed[min(env.freed, key=env.freed.get)]
    env.nfreed = getattr(env, "nfreed", 0) + 1
    env.freed[id(obj)] = env.nfreed


def _do_drop(env, op):
    gone = env.objs.pop(op["obj"], None)
    if gone is not None:
        _released(env, gone)
        del gone
    # the caller lets go of everything it only held for this solver: its EOS object and initial-conditions dict too
    eid = env.obj_eos.pop(op["obj"], None)
    if eid is not None and eid not in env.obj_eos.values():
        env.eos.pop(eid, None)
    iid = env.obj_ic.pop(op["obj"], None)
    if iid is not None and iid not in env.obj_ic.values():
        env.ics.pop(iid, None)
    if op.get("sols"):
        for k in [k for k in env.sols if k in op["sols"]]:
            env.sols.pop(k)
            env.sol_dig.pop(k, None)
    gc.collect()
    return ("ok",)


def _do_churn(env, op):
    """Construct-and-discard storm of one class (object lifetime fault F6)."""
    n_ok = 0
    for _ in range(int(op.get("n", 3))):
        try:
            tmp = {}
            e2 = Env()
            e2.eos, e2.ics = {}, {}
            e2.freed = env.freed
            sub = dict(op)
            sub["obj"] = "_tmp"
            _do_new(e2, sub)
            n_ok += 1
            for c in op.get("cfgs", []):
                _do_cfg(e2, dict(c, obj="_tmp"))
            if op.get("use"):
                # construct, use once, discard: leaves behind whatever the solver keyed on the dead objects
                u = op["use"]
                e2.objs["_tmp"](make_container(dec(u["pts"]), "nd"), float.fromhex(u["t"]))
            if e2.objs.get("_tmp") is not None:
                _released(env, e2.objs["_tmp"])
            env.addr_reused += e2.addr_reused
            env.addr_steered += e2.addr_steered
            del e2, tmp
        except Exception:
            pass
    gc.collect()
    return ("ok", n_ok)


def _do_dump(env, op):
    """dump a solution through the stream seam (sim:// device) or to a real scratch file."""
    sol = env.sols.get(op["sol"])
    if sol is None:
        return ("nosol",)
    names = tuple(sol.dtype.names)
    expect = expected_cells(sol)
    if op.get("dev", "sim") == "sim":
        path = "sim://%s.csv" % op["sol"]       # the same path for every dump of this solution: a re-dump overwrites
        SEAM.stream_plan = dec(op["plan"]) if op.get("plan") else None
        SEAM.text_buffer = int(op.get("bufsize", 8192))
        before = len(SEAM.open_handles)
        try:
            sol.dump(path)
            res = ("returned",)
        except BaseException as e:  # noqa
            res = ("raised", type(e).__name__, isinstance(e, OSError))
        finally:
            SEAM.stream_plan = None
        raw = SEAM.streams.get(path)
        handles = SEAM.open_handles[before:]
        gc.collect()
        leaked = sum(1 for h in handles if not h.released)
        content = bytes(raw.data) if raw is not None else None
        fired = list(raw.fired) if raw is not None else (["open"] if path in SEAM.streams else [])
        return ("dump", res, content, names, expect, leaked, fired, raw.writes if raw is not None else 0)
    # real file
    path = os.path.join(env.scratch, "dump_%s.csv" % op["sol"])     # same path for every dump of this solution
    env.files.append(path)
    if op.get("keep_previous") and not os.path.exists(path):
        with world._real_open(path, "w") as f:
            f.write("stale,content\r\n1,2\r\n")
    try:
        sol.dump(path)
        res = ("returned",)
    except BaseException as e:  # noqa
        res = ("raised", type(e).__name__, isinstance(e, OSError))
    content = None
    if os.path.exists(path):
        with world._real_open(path, "rb") as f:
            content = f.read()
        if not op.get("leave"):
            os.unlink(path)
    return ("dump", res, content, names, expect, 0, [], 0)


def expected_cells(sol):
    """What each CSV cell must parse back to: ('f', 8 bytes of the double) or ('s', text)."""
    np = world.np
    cols = []
    for n in sol.dtype.names:
        a = np.asarray(sol[n])
        if a.dtype.kind == "f":
            cols.append([("f", np.float64(x).tobytes()) for x in a.tolist()])
        elif a.dtype.kind in "iu":
            cols.append([("i", int(x)) for x in a.tolist()])
        elif a.dtype.kind == "c":
            cols.append([("c", np.array([complex(x).real, complex(x).imag], dtype="<f8").tobytes()) for x in a.tolist()])
        else:
            cols.append([("s", "" if x is None else str(x)) for x in a.tolist()])
    return [list(row) for row in zip(*cols)] if cols else []


DISPATCH = {"new": _do_new, "cfg": _do_cfg, "aux": _do_aux, "call": _do_call, "scribble": _do_scribble,
            "drop": _do_drop, "churn": _do_churn, "dump": _do_dump}


def open_fds():
    try:
        return len(os.listdir("/proc/self/fd"))
    except OSError:
        return -1


def run_history(spec, want_state=False):
    """Execute spec['ops'] under spec['faults'] and return the step log.

    Must be called in a forked child of the pristine image (it mutates process state freely).
    """
    np = world.np
    SEAM.reset_run()
    run = spec.get("run", {})
    SEAM.alloc_pattern = float.fromhex(run["alloc"]) if "alloc" in run else 0.0
    devnull = world._real_open(os.devnull, "w")
    sys.stdout = devnull
    env = Env()
    if any(o["op"] == "dump" and o.get("dev") == "file" for o in spec["ops"]):
        import tempfile
        env.scratch = tempfile.mkdtemp(prefix="epsim_")
    faults = {}
    for f in spec.get("faults", []):
        faults.setdefault(f["step"], []).append(f)
    if run.get("nofile_extra") is not None:
        lim = open_fds() + int(run["nofile_extra"])
        soft, hard = resource.getrlimit(resource.RLIMIT_NOFILE)
        resource.setrlimit(resource.RLIMIT_NOFILE, (min(lim, hard), hard))
    fd0 = open_fds()
    log = []
    trace_steps = set(run.get("count_lines", []))
    for i, op in enumerate(spec["ops"]):
        SEAM.reset_op()
        dn0 = SEAM.devnull_opens
        tracer = None
        fired = []
        for f in faults.get(i, []):
            if f["kind"] == "dep":
                SEAM.dep_fire = int(f["k"])
                SEAM.dep_mode = f.get("mode", "before")
                SEAM.dep_exc = f.get("exc", "RuntimeError")
            elif f["kind"] == "abort":
                tracer = Tracer(abort_at=int(f.get("at", f.get("line"))))
            elif f["kind"] == "devnull":
                SEAM.devnull_fail = True
            elif f["kind"] == "oom":
                SEAM.oom_fire = int(f["k"])
        if tracer is None and i in trace_steps:
            tracer = Tracer()
        if tracer is not None:
            sys.setprofile(tracer.prof)
        try:
            try:
                out = DISPATCH[op["op"]](env, op)
            finally:
                if tracer is not None:
                    sys.setprofile(None)
        except BaseException as e:  # noqa  (KeyboardInterrupt from an injected abort included)
            out = ("exc", type(e).__name__, str(e)[:200], isinstance(e, world.InjectedFault),
                   tuple(c.__name__ for c in type(e).__mro__))
        if SEAM.dep_fired:
            fired.append(("dep", SEAM.dep_fired, SEAM.dep_count))
        if tracer is not None and tracer.fired:
            fired.append(("abort",) + tuple(tracer.where))
        if SEAM.oom_fired:
            fired.append(("oom", SEAM.oom_fired, SEAM.oom_count))
        if SEAM.devnull_failed:
            fired.append(("devnull",))
            SEAM.devnull_failed = 0
        SEAM.devnull_fail = False
        # ownership monitor: every caller-owned input and every returned solution still what it was
        events = []
        for bid, c in env.bufs.items():
            d = digest_container(c)
            if d != env.buf_dig[bid]:
                events.append(("input-modified", bid))
                env.buf_dig[bid] = d
        for sid, s in env.sols.items():
            if sid in env.sol_dig:
                d = digest_solution(s)
                if d != env.sol_dig[sid]:
                    events.append(("solution-changed", sid))
                    env.sol_dig[sid] = d
        rec = {"i": i, "out": out, "fired": fired, "deps": SEAM.dep_count, "events": events,
               "stdout_ok": sys.stdout is devnull, "devnull_opens": SEAM.devnull_opens - dn0, "allocs": SEAM.oom_count}
        if want_state == "steps":
            from . import discover
            rec["state"] = discover.dirty()
        if tracer is not None:
            rec["lines"] = tracer.n
        log.append(rec)
    tail = {"fd_delta": open_fds() - fd0, "alloc_hits": SEAM.alloc_hits, "dep_total": SEAM.dep_total,
            "dep_names": dict(SEAM.dep_names), "addr_reused": env.addr_reused, "addr_steered": env.addr_steered}
    if want_state:
        from . import discover
        tail["state"] = discover.dirty()
        if want_state == "steps":
            tail["step_states"] = [r.pop("state") for r in log]
    if env.scratch:
        import shutil
        shutil.rmtree(env.scratch, ignore_errors=True)
    return {"log": log, "tail": tail}
