"""Calibration helper: execute a mini spec in a *truly fresh* interpreter that imports only the one
solver module it needs and installs no seam at all (real numpy allocator, real scipy names).

Used by ``selftest calibration`` to show that the reference model of the checks -- fork() of the
all-imported, seam-patched pristine image -- returns bit-identical outcomes ("reference of the reference").
"""
import hashlib
import importlib
import json
import sys
import warnings


def main():
    from sim.env import ensure_env
    ensure_env("sim.fresh")
    warnings.simplefilter("ignore")
    import numpy
    from sim import world, ops as OPS
    from sim.runner import _out_digest
    mini = json.load(sys.stdin)
    world.np = numpy
    for op in mini["ops"]:
        if op["op"] == "new":
            q = op["cls"]
            modname, clsname = q.rsplit(".", 1)
            mod = importlib.import_module(modname)
            world.CENSUS[q] = getattr(mod, clsname)
    loaded = sorted(m for m in sys.modules if m.startswith("exactpack.solvers.") and m.count(".") == 2)
    real_stdout = sys.stdout
    res = OPS.run_history(mini)
    sys.stdout = real_stdout
    outs = [r["out"] for r in res["log"]]
    print(json.dumps({"digests": [("exc:" + o[1]) if o[0] == "exc" else _out_digest(o) for o in outs],
                      "solver_packages_imported": loaded}))
    return 0


if __name__ == "__main__":
    sys.exit(main())
