"""Deterministic simulator with fault injection for lanl/ExactPack (see /verif/DESIGN.md)."""
