"""Exact, JSON-safe encoding of operation arguments.

Replay files must reproduce a run bit for bit, so every float is stored as
``float.hex()`` and every ndarray as (dtype, shape, hex list).  The encoded
form is also the canonical key material for the reference memo.
"""
import hashlib
import json

import numpy as np


def enc(v):
    if isinstance(v, bool) or v is None or isinstance(v, str):
        return v
    if isinstance(v, (int, np.integer)):
        return int(v)
    if isinstance(v, (float, np.floating)):
        return {"f": float(v).hex()}
    if isinstance(v, np.ndarray):
        if v.dtype.kind == "f":
            return {"nd": [float(x).hex() for x in v.ravel().tolist()], "shape": list(v.shape), "dtype": str(v.dtype)}
        return {"ndi": v.ravel().tolist(), "shape": list(v.shape), "dtype": str(v.dtype)}
    if isinstance(v, tuple):
        return {"t": [enc(x) for x in v]}
    if isinstance(v, list):
        return [enc(x) for x in v]
    if isinstance(v, dict):
        return {"d": [[k, enc(x)] for k, x in v.items()]}
    raise TypeError("cannot encode %r" % (type(v),))


def dec(v):
    if isinstance(v, list):
        return [dec(x) for x in v]
    if isinstance(v, dict):
        if "f" in v:
            return float.fromhex(v["f"])
        if "nd" in v:
            return np.array([float.fromhex(x) for x in v["nd"]], dtype=v["dtype"]).reshape(v["shape"])
        if "ndi" in v:
            return np.array(v["ndi"], dtype=v["dtype"]).reshape(v["shape"])
        if "t" in v:
            return tuple(dec(x) for x in v["t"])
        if "d" in v:
            return {k: dec(x) for k, x in v["d"]}
        raise ValueError("bad encoded value %r" % (v,))
    return v


def canon(obj):
    """Canonical JSON text (sorted keys, no whitespace) of an encoded object."""
    return json.dumps(obj, sort_keys=True, separators=(",", ":"))


def key(obj):
    return hashlib.sha256(canon(obj).encode()).hexdigest()[:24]


def fhex(x):
    return float(x).hex()


def unhex(s):
    return float.fromhex(s)


def h64(*parts):
    """Stable 64-bit hash of a tuple of ints/strings (never Python's hash())."""
    m = hashlib.sha256(("|".join(str(p) for p in parts)).encode()).digest()
    return int.from_bytes(m[:8], "big")
