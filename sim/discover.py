"""State discovery: which process-global variables differ from the pristine image (DESIGN.md §3.4).

Reach metric only — never a verdict.  Tracks every data-valued module global of every exactpack
module, every class attribute of every class defined there (one level into plain objects) and
function default-argument objects.
"""
import hashlib
import inspect
import types

from . import world

_pristine = None


def _dig(v, depth=0):
    np = world.np
    if isinstance(v, (int, float, complex, str, bytes, bool, type(None), np.generic)):
        return repr(v)
    if isinstance(v, np.ndarray):
        return "nd:" + hashlib.md5(v.tobytes()).hexdigest()[:12] + str(v.shape)
    if isinstance(v, (list, tuple)):
        return type(v).__name__ + "[" + ",".join(_dig(x, depth + 1) for x in v[:50]) + "]"
    if isinstance(v, dict):
        return "d{" + ",".join(str(k) + ":" + _dig(x, depth + 1) for k, x in sorted(v.items(), key=lambda kv: str(kv[0]))[:50]) + "}"
    if isinstance(v, types.ModuleType):
        return "mod:" + v.__name__
    if isinstance(v, (world._ModProxy, world._NpProxy)):
        return "proxy"
    if isinstance(v, (types.FunctionType, types.BuiltinFunctionType, type, types.MethodType)):
        extra = ""
        if isinstance(v, types.FunctionType):
            if v.__dict__:
                extra += "attrs" + _dig({k: x for k, x in v.__dict__.items() if k != "__wrapped__"}, depth + 1)
        return "fn:" + getattr(v, "__qualname__", type(v).__name__) + extra
    if depth < 2 and hasattr(v, "__dict__"):
        return "obj:" + type(v).__name__ + _dig(dict(vars(v)), depth + 1)
    return "opaque:" + type(v).__name__


def snapshot():
    snap = {}
    for m in world.MODS:
        for k, v in list(vars(m).items()):
            if k.startswith("__"):
                continue
            snap[m.__name__ + "." + k] = _dig(v)
            if isinstance(v, types.FunctionType) and v.__module__ == m.__name__ and v.__defaults__:
                snap[m.__name__ + "." + k + ".__defaults__"] = _dig(v.__defaults__)
            if inspect.isclass(v) and v.__module__ == m.__name__:
                for a, x in list(vars(v).items()):
                    if a.startswith("__") and a != "__init__":
                        continue
                    if isinstance(x, types.FunctionType):
                        if x.__defaults__:
                            snap[m.__name__ + "." + v.__name__ + "." + a + ".__defaults__"] = _dig(x.__defaults__)
                        continue
                    snap[m.__name__ + "." + v.__name__ + "." + a] = _dig(x)
    return snap


def init():
    global _pristine
    _pristine = snapshot()
    return len(_pristine)


def dirty():
    """{variable: short digest of its current value} for everything that differs from pristine."""
    if _pristine is None:
        return {}
    now = snapshot()
    out = {}
    for k, v in now.items():
        if _pristine.get(k) != v:
            out[k] = hashlib.md5(v.encode()).hexdigest()[:10]
    return out


def tracked():
    return len(_pristine or {})
