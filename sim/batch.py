"""Batch driver shared by the checks: seeded search over many simulated runs on all cores, known-findings
filter, minimisation, replay files, evidence.

Exit codes: 0 = property held on everything explored (KNOWN-FINDING lines allowed),
1 = VIOLATION (with a verified replay file), 2 = harness trouble (never a verdict).
"""
import argparse
import copy
import json
import multiprocessing as mp
import os
import sys
import time
import traceback
from concurrent.futures import ProcessPoolExecutor, as_completed

from . import discover
from . import gen as GEN
from . import runner
from . import shrink as SHR
from . import templates as T
from . import world
from .codec import canon, h64
from .env import VERIF_ROOT, seed_from_env

KNOWN_FILE = os.path.join(VERIF_ROOT, "known_findings.json")
REPLAY_DIR = os.path.join(VERIF_ROOT, "replays")
EVIDENCE_DIR = os.path.join(VERIF_ROOT, "evidence")

_CTX = {}


def init_world(auto=True):
    world.load()
    if not any(k.startswith("cog") for k in T.FAMILIES):
        T.build_cog(world.CENSUS)
        if auto:
            T.build_auto(os.path.join(VERIF_ROOT, "auto_pool.json"))
            T.build_geometry_variants(world.CENSUS)
            T.build_near_variants(world.CENSUS)
    discover.init()


def _work(task):
    """Pool worker: a pristine image that only forks.  task = (prop, tier, seed, kind, index, want_state)."""
    prop, tier, seed, kind, index, want_state = task
    try:
        make = _CTX["make"]
        spec = make(seed, tier, kind, index)
        res = runner.run_spec(spec, _CTX["judge"], want_state=want_state)
        if res["violations"]:
            res["spec"] = spec
        else:
            res["sample"] = _sample_of(spec) if index % 97 == 0 or kind != "swarm" and index % 211 == 0 else None
        res["task"] = [kind, index]
        return res
    except (runner.Harness, world.ChildFailure) as e:
        return {"task": [kind, index], "harness": "%s: %s" % (type(e).__name__, str(e)[:1500])}
    except Exception as e:  # noqa
        return {"task": [kind, index], "harness": "worker exception: " + traceback.format_exc()[-1500:]}


def _sample_of(spec):
    def brief(op):
        o = {k: v for k, v in op.items() if k in ("op", "c", "obj", "cls", "cont", "target", "mode", "m", "sol", "buf", "n", "dev", "expect", "bufsize")}
        if "cls" in o:
            o["cls"] = o["cls"].split(".")[-1]
        if op["op"] == "new":
            o["kw"] = [k for k, _ in op.get("kw", {}).get("d", [])]
        if op.get("plan"):
            o["plan"] = op["plan"]
        if op["op"] == "call":
            o["npts"] = op["pts"]["shape"]
            o["t"] = float.fromhex(op["t"])
        return o
    return {"kind": spec["kind"], "index": spec["index"], "families": spec["families"], "run": spec.get("run", {}),
            "ops": [brief(o) for o in spec["ops"][:40]], "intents": [[i["step"], i.get("kinds")] for i in spec.get("intents", [])]}


def load_known(prop):
    if not os.path.exists(KNOWN_FILE):
        return []
    with open(KNOWN_FILE) as f:
        data = json.load(f)
    return [e for e in data.get("findings", []) if e.get("property") == prop]


def _get(d, dotted):
    cur = d
    for p in dotted.split("."):
        if not isinstance(cur, dict) or p not in cur:
            return None
        cur = cur[p]
    return cur


def matches(v, entry):
    if entry.get("status") != "known":
        return False
    for k, want in entry.get("match", {}).items():
        if _get(v, k) != want:
            return False
    return True


def signature(v):
    d = v.get("detail") or {}
    return "%s-%s-%s" % (v["inv"], v.get("cls", "?"), d.get("kind", d.get("event", "x")))


def write_replay(prop, spec, violation, fp, tag):
    os.makedirs(REPLAY_DIR, exist_ok=True)
    tag = "".join(ch if (ch.isalnum() or ch in "-_.") else "_" for ch in tag)
    path = os.path.join(REPLAY_DIR, "%s-%s.json" % (prop, tag))
    doc = {"property": prop, "seed": spec.get("seed"), "tier": spec.get("tier"), "index": spec.get("index"),
           "kind": spec.get("kind"), "violation": violation, "fingerprint": fp,
           "spec": {"ops": spec["ops"], "faults": spec.get("faults", []), "run": spec.get("run", {}), "intents": [],
                    "families": spec.get("families", []), "kind": spec.get("kind"), "index": spec.get("index"),
                    "seed": spec.get("seed"), "tier": spec.get("tier"), "prop": prop}}
    with open(path, "w") as f:
        json.dump(doc, f, indent=1, default=_jsonable)
        f.write("\n")
    return path


def _jsonable(o):
    if isinstance(o, (bytes, bytearray)):
        return o.hex()
    if isinstance(o, tuple):
        return list(o)
    if isinstance(o, float) and o != o:
        return "nan"
    return str(o)


def replay_file(path, judge):
    """Re-execute the explicit lists of a replay file.  Returns (reproduced, result, doc)."""
    with open(path) as f:
        doc = json.load(f)
    spec = doc["spec"]
    res = runner.run_spec(spec, judge)
    target = doc["violation"]
    hit = [v for v in res["violations"] if SHR.same_class(v, target)]
    return bool(hit), res, doc


def minimise_and_record(prop, judge, spec, violation, resolved, budget=200):
    """Shrink, verify reproducibility (same verdict and same fingerprint twice), write the replay file."""
    frozen = SHR.explicit(spec, violation, resolved)
    if violation.get("inv") == "H6":
        budget = 6      # every candidate of a hang costs a full timeout: confirm it once, shrink only a little
    sh = SHR.Shrinker(judge, violation, budget=budget)
    best, v = sh.run(frozen)
    if best is None:
        return None, "not reproducible from its explicit lists (first re-execution did not fail)", sh.tried
    r1 = runner.run_spec(best, judge)
    r2 = runner.run_spec(best, judge)
    h1 = [x for x in r1["violations"] if SHR.same_class(x, violation)]
    h2 = [x for x in r2["violations"] if SHR.same_class(x, violation)]
    if not h1 or not h2 or r1["fingerprint"] != r2["fingerprint"]:
        return None, "minimised run does not replay exactly (fingerprints %s / %s)" % (r1["fingerprint"], r2["fingerprint"]), sh.tried
    tag = "%s-s%s-%s%s" % (signature(violation), spec.get("seed"), spec.get("kind", "x")[0], spec.get("index"))
    path = write_replay(prop, best, h1[0], r1["fingerprint"], tag)
    return path, {"ops_before": len(spec["ops"]), "ops_after": len(best["ops"]), "faults_after": len(best.get("faults", [])),
                  "candidates": sh.tried, "violation": h1[0]}, sh.tried


class Aggregate(object):
    def __init__(self):
        self.runs = 0
        self.ops = 0
        self.op_kinds = {}
        self.sigs = set()
        self.nontrivial_sigs = set()
        self.fam_pairs = set()
        self.pset_pairs = set()
        self.fired = {}
        self.fired_where = {}
        self.classes = {}
        self.containers = {}
        self.stats = {}
        self.phases = 0
        self.fingerprints = {}
        self.samples = []
        self.state_sigs = set()
        self.dirty_vars = {}
        self.run_faults = {}
        self.alloc_hits = 0
        self.dep_total = 0
        self.dep_names = {}
        self.by_kind = {}
        self.fam_runs = {}
        self.probes = {}
        self.ref_wall = 0.0
        self.fd_leaks = 0
        self.addr_reused = 0
        self.addr_steered = 0

    def add(self, res):
        c = res["cov"]
        self.runs += 1
        self.by_kind[res.get("kind")] = self.by_kind.get(res.get("kind"), 0) + 1
        self.ops += c["n_ops"] * max(1, res["phases"])
        self.phases += res["phases"]
        for k, v in c["op_kinds"].items():
            self.op_kinds[k] = self.op_kinds.get(k, 0) + v
        self.sigs.add(c["sig"])
        if c["nontrivial"]:
            self.nontrivial_sigs.add(c["sig"])
        self.fam_pairs.update(tuple(p) for p in c["fam_pairs"])
        self.pset_pairs.update(tuple(p) for p in c["pset_pairs"])
        for k, v in c["fired"].items():
            self.fired[k] = self.fired.get(k, 0) + v
        for k, v in c["fired_where"].items():
            self.fired_where[k] = self.fired_where.get(k, 0) + v
        for q in c["classes"]:
            self.classes[q] = self.classes.get(q, 0) + 1
        for f in c.get("families", []):
            self.fam_runs[f] = self.fam_runs.get(f, 0) + 1
        for k, v in c.get("probes", {}).items():
            self.probes[k] = self.probes.get(k, 0) + v
        for k, v in c["containers"].items():
            self.containers[k] = self.containers.get(k, 0) + v
        for k in c["run_faults"]:
            self.run_faults[k] = self.run_faults.get(k, 0) + 1
        for k, v in res["stats"].items():
            self.stats[k] = self.stats.get(k, 0) + v
        self.fingerprints[tuple(res["task"])] = res["fingerprint"]
        if res.get("sample"):
            if res["sample"]["kind"] == "swarm":
                self.samples.insert(0, res["sample"])
            else:
                self.samples.append(res["sample"])
            swarm = [s for s in self.samples if s["kind"] == "swarm"][:3]
            other = [s for s in self.samples if s["kind"] != "swarm"][:1]
            self.samples = swarm + other
        self.ref_wall += res.get("ref_wall", 0.0)
        for tail in res.get("tails", []):
            self.alloc_hits += tail.get("alloc_hits", 0)
            self.addr_reused += tail.get("addr_reused", 0)
            self.addr_steered += tail.get("addr_steered", 0)
            self.dep_total += tail.get("dep_total", 0)
            for k, v in tail.get("dep_names", {}).items():
                self.dep_names[k] = self.dep_names.get(k, 0) + v
            if tail.get("fd_delta", 0) > 0:
                self.fd_leaks += 1
            for st in [tail.get("state")] + list(tail.get("step_states") or []):
                if st is not None:
                    self.state_sigs.add(canon(sorted(st.items())))
                    for k, v in st.items():
                        self.dirty_vars.setdefault(k, set()).add(v)


def plan_tasks(prop, tier, seed, n_corner, n_swarm, state_every=5, n_corner_all=None):
    tasks = []
    total = n_corner_all or n_corner
    ks = list(range(n_corner))
    if n_corner and n_corner < total:
        # a seeded random subset of the fixed cornerstone list (the thorough tier runs all of it); a strided subset
        # aliased with the variant order (stride 3 x 3 variants = one variant per family) and missed a mutant
        always = set(_CTX.get("priority_cornerstones") or [])
        ks = sorted(always | set(sorted((k for k in range(total) if k not in always),
                                        key=lambda k: h64(seed, "cornerstone-subset", k))[:max(0, n_corner - len(always))]))
    for k in ks:
        tasks.append((prop, tier, seed, "cornerstone", k, ("steps" if k % (2 * state_every) == 0 else True) if k % state_every == 0 else False))
    for i in range(n_swarm):
        tasks.append((prop, tier, seed, "swarm", i, ("steps" if i % (2 * state_every) == 0 else True) if i % state_every == 0 else False))
    return tasks


def run_tasks(tasks, workers, wall_cap, progress=True):
    """Run all tasks on a fork pool.  Returns (results, harness errors, truncated?)."""
    results, harness = [], []
    t0 = time.time()
    truncated = False
    ctx = mp.get_context("fork")
    with ProcessPoolExecutor(max_workers=workers, mp_context=ctx) as ex:
        futs = [ex.submit(_work, t) for t in tasks]
        done = 0
        try:
            for f in as_completed(futs, timeout=wall_cap):
                try:
                    r = f.result()
                except Exception as e:  # a dead worker
                    harness.append("pool failure: %r" % (e,))
                    continue
                done += 1
                if "harness" in r:
                    harness.append("%s: %s" % (r["task"], r["harness"]))
                else:
                    results.append(r)
                if progress and done % 200 == 0:
                    print("  ... %d/%d runs, %.0fs" % (done, len(tasks), time.time() - t0), flush=True)
        except TimeoutError:
            truncated = True
            for f in futs:
                f.cancel()
            ex.shutdown(wait=False, cancel_futures=True)
    return results, harness, truncated


def main(prop, judge, make, sizes, describe, argv=None):
    ap = argparse.ArgumentParser(prog="checks." + prop.lower())
    ap.add_argument("--tier", default=os.environ.get("VERIF_TIER", "quick"), choices=["quick", "thorough"])
    ap.add_argument("--seed", type=int, default=None)
    ap.add_argument("--replay", default=None)
    ap.add_argument("--workers", type=int, default=int(os.environ.get("VERIF_WORKERS", "16")))
    ap.add_argument("--runs", type=int, default=None, help="override the number of swarm runs")
    ap.add_argument("--corner", type=int, default=None, help="override the number of cornerstone runs")
    ap.add_argument("--no-shrink", action="store_true")
    ap.add_argument("--no-evidence", action="store_true")
    ap.add_argument("--only", default=os.environ.get("VERIF_ONLY"), help="comma-separated family names (targeted runs)")
    ap.add_argument("--fingerprints", default=None, help="write per-run fingerprints to this file (determinism self-test)")
    args = ap.parse_args(argv)
    seed = args.seed if args.seed is not None else seed_from_env()
    t0 = time.time()
    init_world()
    _CTX["judge"] = judge
    _CTX["make"] = make
    if args.only:
        GEN.ONLY = set(args.only.split(","))
    if world.load.import_failures:
        print("HARNESS: solver modules failed to import: %r" % (world.load.import_failures,))
        return 2

    if args.replay:
        ok, res, doc = replay_file(args.replay, judge)
        print("replay %s: fingerprint %s (recorded %s)" % (args.replay, res["fingerprint"], doc.get("fingerprint")))
        if ok:
            same = res["fingerprint"] == doc.get("fingerprint")
            print("reproduced%s: %s" % ("" if same else " (verdict identical; event-log fingerprint differs: the code under test changed)",
                                        json.dumps([v for v in res["violations"]][:2], default=_jsonable)[:600]))
            print("VIOLATION property=%s replay=%s" % (prop, args.replay))
            return 1
        print("not reproduced: the property holds on this replay")
        return 0

    n_corner, n_swarm, wall_cap = sizes(args.tier)
    n_corner_all = (len(GEN.cornerstone_list(args.tier)) if prop == "C06" else n_corner) if n_corner else 0
    if prop == "C06" and n_corner:
        # the parameter-sweep sessions (one per family) are part of every tier
        # ... and so are the two_times sessions (every parameter set: one object at two times, near-equal times, a big request)
        _CTX["priority_cornerstones"] = [k for k, e in enumerate(GEN.cornerstone_list(args.tier)) if e[3] in ("sweep", "two_times")]
    if args.runs is not None:
        n_swarm = args.runs
    if args.corner is not None:
        n_corner = args.corner
    known = load_known(prop)
    print("%s %s seed=%d: %d cornerstone + %d swarm runs on %d workers (census %d classes, %d families, src %s)" % (
        prop, args.tier, seed, n_corner, n_swarm, args.workers, sum(1 for q in world.CENSUS if q.startswith('exactpack.')), len(T.FAMILIES), world.src_root()), flush=True)

    # known findings are re-observed deterministically from their committed probe replays
    known_lines = []
    for e in known:
        if e.get("status") == "known" and e.get("probe"):
            p = os.path.join(VERIF_ROOT, e["probe"])
            try:
                ok, res, doc = replay_file(p, judge)
            except Exception as ex:  # noqa
                print("HARNESS: known-finding probe %s failed to run: %r" % (p, ex))
                return 2
            if ok:
                known_lines.append("KNOWN-FINDING: property=%s %s" % (prop, e["what"]))
            else:
                print("note: listed finding no longer reproduces from its probe (%s): %s" % (e["probe"], e["what"]))

    tasks = plan_tasks(prop, args.tier, seed, min(n_corner, n_corner_all), n_swarm, n_corner_all=n_corner_all)
    results, harness, truncated = run_tasks(tasks, args.workers, wall_cap)
    agg = Aggregate()
    new_viol = {}
    known_seen = {}
    for r in sorted(results, key=lambda r: (r["task"][0], r["task"][1])):
        agg.add(r)
        for v in r["violations"]:
            ent = next((e for e in known if matches(v, e)), None)
            if ent is not None:
                known_seen[ent.get("id", ent["what"])] = known_seen.get(ent.get("id", ent["what"]), 0) + 1
                continue
            new_viol.setdefault(signature(v), []).append((r, v))
    for e in known:
        if e.get("status") == "known" and not e.get("probe") and known_seen.get(e.get("id", e["what"])):
            known_lines.append("KNOWN-FINDING: property=%s %s" % (prop, e["what"]))
    for line in known_lines:
        print(line)

    exit_code = 0
    reported = []
    for sig in sorted(new_viol)[:4]:
        r, v = sorted(new_viol[sig], key=lambda rv: (len(rv[0]["spec"]["ops"]), rv[0]["task"]))[0]
        print("violation class %s: %d occurrence(s); first: run %s step %s: %s" % (
            sig, len(new_viol[sig]), r["task"], v.get("step"), json.dumps(v, default=_jsonable)[:500]), flush=True)
        if args.no_shrink:
            tag = "%s-s%s-%s%s-raw" % (sig, seed, r["task"][0][0], r["task"][1])
            frozen = SHR.explicit(r["spec"], v, r.get("resolved_faults"))
            path = write_replay(prop, frozen, v, r["fingerprint"], tag)
            info = {"unshrunk": True}
        else:
            path, info, tried = minimise_and_record(prop, judge, r["spec"], v, r.get("resolved_faults"))
        if path is None:
            harness.append("violation class %s from run %s: %s" % (sig, r["task"], info))
            continue
        reported.append({"signature": sig, "replay": path, "info": info, "runs": len(new_viol[sig])})
        print("VIOLATION property=%s replay=%s" % (prop, path), flush=True)
        exit_code = 1
    if len(new_viol) > 4:
        print("(%d further violation classes not minimised: %s)" % (len(new_viol) - 4, sorted(new_viol)[4:]))

    # shared process state by discovery: anything dirty that the committed baseline does not list is reported (information)
    base_path = os.path.join(VERIF_ROOT, "shared_state_baseline.json")
    if os.path.exists(base_path):
        with open(base_path) as f:
            base_vars = set(json.load(f)["variables"])
        for name in sorted(set(agg.dirty_vars) - base_vars):
            print("NEW-SHARED-STATE %s (process-global variable written during the runs; not in shared_state_baseline.json)" % name)
    wall = time.time() - t0
    if args.fingerprints:
        with open(args.fingerprints, "w") as f:
            json.dump({"%s:%d" % k: v for k, v in sorted(agg.fingerprints.items())}, f, indent=0, sort_keys=True)
    if not args.no_evidence:
        write_evidence(prop, args.tier, seed, agg, wall, len(new_viol), reported, known_lines, harness, truncated,
                       describe, len(tasks))
    for h in harness[:10]:
        print("HARNESS: " + h.replace("\n", " | ")[:1200])
    print("%s %s: %d runs (%d phases, %d operations) in %.0fs = %.0f runs/h; %d distinct interleavings (%d non-trivial); "
          "faults fired %s; new violation classes %d; known findings re-observed %d%s" % (
              prop, args.tier, agg.runs, agg.phases, agg.ops, wall, agg.runs / max(wall, 1e-9) * 3600, len(agg.sigs),
              len(agg.nontrivial_sigs), dict(sorted(agg.fired.items())), len(new_viol), len(known_lines),
              "; TRUNCATED by wall cap" if truncated else ""))
    if exit_code == 0 and harness:
        return 2
    return exit_code


def write_evidence(prop, tier, seed, agg, wall, n_viol, reported, known_lines, harness, truncated, describe, planned):
    os.makedirs(EVIDENCE_DIR, exist_ok=True)
    census = sorted(q for q in world.CENSUS if q.startswith("exactpack."))
    covered = sorted(agg.classes)
    fams = sorted(T.FAMILIES)
    n_fam = len(fams)
    cov = {
        "evaluations": agg.runs,
        "distinct_nontrivial": len(agg.nontrivial_sigs),
        "rule": describe["rule"],
        "samples": agg.samples[:4] or [{"note": "no sample retained"}],
        "planned_runs": planned,
        "runs_by_kind": agg.by_kind,
        "phases_executed": agg.phases,
        "operations_executed": agg.ops,
        "operations_by_kind": agg.op_kinds,
        "runs_per_hour": round(agg.runs / max(wall, 1e-9) * 3600),
        "operations_per_hour": round(agg.ops / max(wall, 1e-9) * 3600),
        "simulated_time": "%d logical steps (ExactPack reads no clock; physical time t is an argument)" % agg.ops,
        "distinct_interleavings": len(agg.sigs),
        "faults_fired": agg.fired,
        "faults_fired_where": agg.fired_where,
        "run_level_faults": agg.run_faults,
        "dirty_allocations_served": agg.alloc_hits,
        "solver_addresses_reused": {"constructors_that_landed_on_a_released_solver_address": agg.addr_reused, "of_which_steered_by_the_simulator": agg.addr_steered},
        "seam_calls_observed": agg.dep_total,
        "seam_calls_by_name": dict(sorted(agg.dep_names.items(), key=lambda kv: -kv[1])[:25]),
        "oracle_counters": agg.stats,
        "ordered_family_pairs": {"reached": len(agg.fam_pairs), "of": n_fam * n_fam},
        "same_module_parameter_set_pairs": len(agg.pset_pairs),
        "containers": agg.containers,
        "runs_per_family": dict(sorted(agg.fam_runs.items())),
        "rare_condition_probes": agg.probes,
        "seeds": {"batch_seed": seed, "derived_prng_streams": agg.runs,
                  "note": "one PRNG stream per run, derived as sha256(batch seed, tier, run index, property); runs_per_hour is also seeds per hour"},
        "classes_covered": {"covered": len([c for c in covered if c.startswith("exactpack.")]), "of": len(census), "uncovered": [c for c in census if c not in agg.classes][:40]},
        "global_state": {"tracked_variables": discover.tracked(), "distinct_state_signatures": len(agg.state_sigs),
                         "dirty_variables": {k: len(v) for k, v in sorted(agg.dirty_vars.items())}},
        "runs_leaving_descriptors_open": agg.fd_leaks,
        "reference_wall_s": round(agg.ref_wall, 1),
        "components": describe["components"],
        "known_findings_reobserved": known_lines,
        "violations_reported": reported,
        "harness_errors": harness[:10],
        "truncated_by_wall_cap": truncated,
    }
    cov.update(describe.get("extra", lambda agg: {})(agg))
    doc = {"property_id": prop, "tier": tier, "seed": seed, "level": "exploration", "coverage": cov,
           "assumptions": describe["assumptions"], "wall_s": round(wall, 1), "violations": n_viol}
    path = os.path.join(EVIDENCE_DIR, "%s.json" % prop)
    with open(path, "w") as f:
        json.dump(doc, f, indent=1, default=_jsonable)
        f.write("\n")
    return path
