"""Reference model and verdict-bearing checks (DESIGN.md §2.2, §3.2, §4.3).

The reference outcome of an operation on object S is the outcome of the same operation made first
in a fork of the pristine image that replays only S's own construction/configuration operations.
"""
import copy
import time

from . import ops as OPS
from . import templates as T
from . import world
from .codec import canon, dec, key

REF_MEMO = {}
REF_MEMO_CAP = 30000
REF_STATS = {"computed": 0, "hits": 0, "wall": 0.0}


def _norm(op, role):
    o = {k: v for k, v in op.items() if k not in ("c", "fam", "pi", "layout")}
    if "obj" in o:
        o["obj"] = "S"
    if "buf" in o:
        o["buf"] = "B"
    if "sol" in o:
        o["sol"] = "R"
    if "eos" in o:
        o["eos"] = dict(o["eos"], id="E")
    if "ic" in o:
        o["ic"] = dict(o["ic"], id="D")
    return o


def object_chain(spec, oid, upto, exclude=()):
    """S's own construction and configuration operations before step ``upto``."""
    chain = []
    for j, op in enumerate(spec["ops"][:upto]):
        if op.get("obj") == oid and op["op"] in ("new", "cfg") and j not in exclude:
            chain.append(_norm(op, "chain"))
    return chain


def mini_spec(spec, i, exclude=()):
    op = spec["ops"][i]
    if op["op"] == "new":
        ops = [_norm(op, "self")]
    elif op["op"] in ("call", "cfg", "aux"):
        ops = object_chain(spec, op["obj"], i, exclude) + [_norm(op, "self")]
    else:
        return None
    return {"ops": ops, "faults": [], "run": {}}


def reference(mini, timeout=900.0):
    """Outcomes of all steps of a mini spec, made first in a fresh image.  Memoised per process."""
    k = key(mini["ops"])
    if k in REF_MEMO:
        REF_STATS["hits"] += 1
        return REF_MEMO[k]
    t0 = time.time()
    res = world.infork(lambda: OPS.run_history(mini), timeout=timeout)
    dt = time.time() - t0
    REF_STATS["computed"] += 1
    REF_STATS["wall"] += dt
    if res[0] != "ok":
        raise world.ChildFailure("reference run failed: %r" % (res[1:3],))
    outs = [r["out"] for r in res[1]["log"]]
    if len(REF_MEMO) >= REF_MEMO_CAP:
        REF_MEMO.clear()      # bounded memory in long batches; a cleared memo only costs recomputation
    REF_MEMO[k] = (outs, dt)
    return REF_MEMO[k]


def same_outcome(a, b):
    """History outcome vs reference outcome: bitwise for values, type name for exceptions."""
    if a[0] != b[0]:
        return False
    if a[0] == "exc":
        return a[1] == b[1]
    return a == b


def describe_diff(a, b):
    np = world.np
    if a[0] != b[0] or a[0] != "ok":
        return {"kind": "status", "history": list(a[:3]) if a[0] == "exc" else a[0], "reference": list(b[:3]) if b[0] == "exc" else b[0]}
    if len(a) < 6:
        return {"kind": "value", "history": repr(a)[:80], "reference": repr(b)[:80]}
    if a[1] != b[1]:
        return {"kind": "names", "history": a[1], "reference": b[1]}
    out = {"kind": "fields", "fields": {}}
    for n, fa, fb in zip(a[1], a[2], b[2]):
        if fa != fb:
            try:
                if fa[0] == fb[0] and fa[1] == fb[1] and np.dtype(fa[0]).kind in "fiub":
                    xa = np.frombuffer(fa[2], dtype=fa[0]).astype(float)
                    xb = np.frombuffer(fb[2], dtype=fb[0]).astype(float)
                    with np.errstate(all="ignore"):
                        rel = np.abs(xa - xb) / np.maximum(np.maximum(np.abs(xa), np.abs(xb)), 1e-300)
                    bad = np.flatnonzero(~((xa == xb) | (np.isnan(xa) & np.isnan(xb))))
                    j = int(bad[0]) if len(bad) else 0
                    out["fields"][n] = {"n_diff": int(len(bad)), "max_rel": float(np.nanmax(rel)) if len(rel) else 0.0,
                                        "first": [j, float(xa[j]), float(xb[j])]}
                else:
                    out["fields"][n] = {"dtype_or_shape": [fa[0], list(fa[1]), fb[0], list(fb[1])]}
            except Exception as e:  # noqa
                out["fields"][n] = {"undecodable": repr(e)[:60]}
    if a[3] != b[3]:
        out["jumps"] = [a[3][:120], b[3][:120]]
    if a[4] != b[4] or a[5] != b[5]:
        out["type_len"] = [a[4], a[5], b[4], b[5]]
    return out


def short_cls(q):
    return q.split(".")[-1]


def _faulted_steps(hist):
    return {r["i"] for r in hist["log"] if r["fired"]}


def judge_c06(spec, hist, refs):
    """H1, H2, H3, H4 (H5 is H1 after a fault).  Returns (violations, stats)."""
    viol = []
    stats = {"h1_checked": 0, "h1_after_fault": 0, "h4_pairs": 0, "h4_points": 0, "h4_skipped": 0, "unjudged_faulted": 0}
    faulted = _faulted_steps(hist)
    tainted = set()      # objects whose construction had a fault injected: the object may not exist
    cfg_faulted = {}     # object -> steps of configuration ops that were interrupted (may or may not have taken effect)
    seen_fault = False
    for rec in hist["log"]:
        i = rec["i"]
        op = spec["ops"][i]
        if i in faulted:
            seen_fault = True
            stats["unjudged_faulted"] += 1
            if op["op"] == "new":
                tainted.add(op["obj"])
            elif op["op"] == "cfg":
                cfg_faulted.setdefault(op["obj"], []).append(i)
                if len(cfg_faulted[op["obj"]]) > 2:
                    tainted.add(op["obj"])
            # events during a faulted op are still the caller's business: inputs must not be written
        for ev in rec["events"]:
            inv = "H3" if ev[0] == "input-modified" else "H2"
            viol.append({"inv": inv, "step": i, "cls": short_cls(_cls_of(spec, op)), "fam": op.get("fam", ""),
                         "detail": {"event": ev[0], "id": ev[1], "during": op["op"]}})
        if op["op"] not in ("new", "call", "cfg", "aux") or i in faulted:
            continue
        if op.get("obj") in tainted:
            continue
        r = refs.get(i)
        if r is None:
            continue
        ref_out = r[0][-1]
        stats["h1_checked"] += 1
        if seen_fault:
            stats["h1_after_fault"] += 1
        ok = same_outcome(rec["out"], ref_out)
        if not ok and cfg_faulted.get(op.get("obj")):
            # an interrupted setter either took effect or did not: accept the reference of either configuration
            fs = [j for j in cfg_faulted[op["obj"]] if j < i]
            subsets = [[]]
            for j in fs:
                subsets = subsets + [x + [j] for x in subsets]
            for ex in subsets[1:]:
                alt = reference(mini_spec(spec, i, exclude=set(ex)))
                stats["h1_alt_refs"] = stats.get("h1_alt_refs", 0) + 1
                if same_outcome(rec["out"], alt[0][-1]):
                    ok = True
                    break
        if not ok:
            viol.append({"inv": "H1", "step": i, "cls": short_cls(_cls_of(spec, op)), "fam": op.get("fam", _fam_of(spec, op)),
                         "after_fault": seen_fault, "detail": describe_diff(rec["out"], ref_out)})
    v4, s4 = judge_batch(spec, hist, faulted, tainted)
    viol.extend(v4)
    stats.update(s4)
    return viol, stats


def _cls_of(spec, op):
    if "cls" in op:
        return op["cls"]
    oid = op.get("obj")
    if oid is None and op.get("sol"):
        for o in spec["ops"]:
            if o["op"] == "call" and o.get("sol") == op["sol"]:
                oid = o["obj"]
                break
    for o in spec["ops"]:
        if o["op"] == "new" and o["obj"] == oid:
            return o["cls"]
    return "?"


def _fam_of(spec, op):
    oid = op.get("obj")
    for o in spec["ops"]:
        if o["op"] == "new" and o["obj"] == oid:
            return o.get("fam", "")
    return ""


def _coords(pts, layout):
    np = world.np
    if layout == "2N":
        return [np.ascontiguousarray(pts[:, j]).tobytes() for j in range(pts.shape[1])]
    if pts.ndim == 1:
        return [np.float64(x).tobytes() for x in pts]
    return [np.ascontiguousarray(row).tobytes() for row in pts]


def _field_arrays(out):
    np = world.np
    res = {}
    for n, f in zip(out[1], out[2]):
        if f[0] == "object":
            res[n] = None
        else:
            a = np.frombuffer(f[2], dtype=f[0]).reshape(f[1])
            res[n] = a if a.dtype.kind in "fiub" else None
    return res


H4_RTOL = 1e-9
SEDOV_RES_TOL = 5e-3     # of the field's scale, for points farther than 2h from every reported jump (DESIGN.md §3.2 H4)


def _jump_locations(out):
    import re
    return [float(x) for x in re.findall(r"float64\(([-+0-9.eE]+|nan|inf)\)", out[3])]


def _sedov_resolution(pa, pb, out_a, out_b, fa, fb):
    """Comparator for two Sedov requests with different max(r): returns f(field, r, va, vb) -> bool, or None."""
    np = world.np
    ma, mb = float(np.nanmax(pa)), float(np.nanmax(pb))
    if not (np.isfinite(ma) and np.isfinite(mb)) or ma <= 0 or mb <= 0:
        return None
    h = max(ma, mb) / 3000.0
    jumps = [j for j in _jump_locations(out_a) + _jump_locations(out_b) if j == j]
    if not jumps:
        return None
    rshock = max(jumps)
    scale = {}
    for n in fa:
        vals = [np.abs(x[np.isfinite(x)]) for x in (fa.get(n), fb.get(n)) if x is not None]
        vals = [v.max() for v in vals if v.size]
        scale[n] = max(vals) if vals else 0.0

    def ok(field, r, va, vb):
        if field == "position":
            return va == vb
        if any(abs(r - j) <= 2.0 * h for j in jumps) or r != r:
            return True
        if field in ("specific_internal_energy", "sound_speed") and r < 0.3 * rshock:
            return True
        if va != va or vb != vb:
            return (va != va) == (vb != vb) or r < 0.3 * rshock
        if not (np.isfinite(va) and np.isfinite(vb)):
            return va == vb
        return abs(va - vb) <= SEDOV_RES_TOL * max(scale.get(field, 0.0), 1e-300)
    return ok


def _close(a, b):
    if a == b or (a != a and b != b):
        return True
    if a != a or b != b:
        return False
    return abs(a - b) <= H4_RTOL * max(abs(a), abs(b)) + 1e-300


def judge_batch(spec, hist, faulted, tainted):
    """H4: values at points shared by two requests of the same (construction, time) agree."""
    np = world.np
    viol = []
    stats = {"h4_pairs": 0, "h4_points": 0, "h4_skipped": 0, "h4_dups": 0}
    groups = {}
    for rec in hist["log"]:
        i = rec["i"]
        op = spec["ops"][i]
        if op["op"] != "call" or i in faulted or op["obj"] in tainted or rec["out"][0] != "ok":
            continue
        k = (key(object_chain(spec, op["obj"], i)), op["t"])
        groups.setdefault(k, []).append(i)
    for (ck, t), steps in groups.items():
        reqs = []
        for i in steps:
            op = spec["ops"][i]
            pts = dec(op["pts"])
            layout = op.get("layout", "N")
            fam = T.FAMILIES.get(op.get("fam", ""))
            gran = fam.gran if fam else "pointwise"
            reqs.append((i, pts, layout, gran, _coords(pts, layout), _field_arrays(hist["log"][i]["out"])))
        # duplicates inside one request + pairs of requests
        pairs = [(a, a) for a in range(len(reqs))] + [(a, b) for a in range(len(reqs)) for b in range(a + 1, len(reqs))]
        for a, b in pairs[:300]:
            ia, pa, la, gran, ca, fa = reqs[a]
            ib, pb, lb, _, cb, fb = reqs[b]
            if gran == "mesh":
                stats["h4_skipped"] += 1
                continue
            sedov_res = None
            if a != b:
                if gran == "sedov" and pa.ndim == 1 and float(np.nanmax(pa)) != float(np.nanmax(pb)):
                    # different max(r) -> different internal grids: the documented resolution applies
                    sedov_res = _sedov_resolution(pa, pb, hist["log"][ia]["out"], hist["log"][ib]["out"], fa, fb)
                    if sedov_res is None:
                        stats["h4_skipped"] += 1
                        continue
                if gran == "ep_piston" and pa.ndim == 1 and float(pa.max()) != float(pb.max()):
                    stats["h4_skipped"] += 1
                    continue
                if gran == "mader" and not (len(pa) == len(pb) and pa[0] == pb[0] and pa[-1] == pb[-1]):
                    stats["h4_skipped"] += 1
                    continue
            index_b = {}
            for j, c in enumerate(cb):
                index_b.setdefault(c, []).append(j)
            stats["h4_pairs"] += 1 if a != b else 0
            bad = None
            for ja, c in enumerate(ca):
                for jb in index_b.get(c, ()):
                    if a == b and jb <= ja:
                        continue
                    if a == b:
                        stats["h4_dups"] += 1
                    stats["h4_points"] += 1
                    for n in fa:
                        if n not in fb or fa[n] is None or fb[n] is None:
                            continue
                        va, vb = fa[n][ja], fb[n][jb]
                        if sedov_res is not None:
                            stats["h4_sedov_resolution_points"] = stats.get("h4_sedov_resolution_points", 0) + 1
                            if not sedov_res(n, float(pa[ja]), float(va), float(vb)):
                                bad = (n, ja, jb, float(va), float(vb))
                                break
                            continue
                        if not _close(float(va), float(vb)):
                            bad = (n, ja, jb, float(va), float(vb))
                            break
                    if bad:
                        break
                if bad:
                    break
            if bad:
                op = spec["ops"][ib]
                viol.append({"inv": "H4", "step": ib, "cls": short_cls(_cls_of(spec, op)), "fam": op.get("fam", ""),
                             "detail": {"kind": "batch", "other_step": ia, "field": bad[0], "index": [bad[1], bad[2]],
                                        "values": [bad[3], bad[4]], "same_request": a == b}})
    return viol, stats


# ---------------------------------------------------------------------------------------------
# C05: the uniform call/return contract (DESIGN.md §4.3)
# ---------------------------------------------------------------------------------------------
_IFACE = None


def interface():
    global _IFACE
    if _IFACE is None:
        import json
        import os
        from .env import VERIF_ROOT
        with open(os.path.join(VERIF_ROOT, "interface_census.json")) as f:
            _IFACE = json.load(f)["classes"]
        _IFACE["verif.probe.ProbeSolver"] = {"1": ["position", "value"]}
        _IFACE["verif.probe.ProbeValues"] = {"1": ["position", "value", "count", "amplitude", "region", "tag", "value scaled"]}
    return _IFACE


def check_csv(content, names, expect):
    """I6: header == names; every cell parses back to the identical value.  Returns None or a reason."""
    import csv
    import io
    import struct
    if content is None:
        return "no file content"
    try:
        text = content.decode("utf-8")
    except Exception as e:  # noqa
        return "undecodable: %r" % (e,)
    rows = list(csv.reader(io.StringIO(text, newline="")))
    if not rows:
        return "empty file"
    if tuple(rows[0]) != tuple(names):
        return "header %r != field names %r" % (rows[0][:8], list(names)[:8])
    body = rows[1:]
    if len(body) != len(expect):
        return "row count %d != %d records" % (len(body), len(expect))
    for i, (row, exp) in enumerate(zip(body, expect)):
        if len(row) != len(exp):
            return "row %d has %d cells, expected %d" % (i, len(row), len(exp))
        for j, (cell, e) in enumerate(zip(row, exp)):
            kind, val = e[0], e[1]
            if kind == "f":
                try:
                    got = struct.pack("<d", float(cell))
                except ValueError:
                    return "row %d col %s: %r is not a float" % (i, names[j], cell)
                want = bytes(val)
                if got != want:
                    a, b = struct.unpack("<d", got)[0], struct.unpack("<d", want)[0]
                    if not (a != a and b != b):
                        return "row %d col %s: %r reads back as %r, value was %r" % (i, names[j], cell, a, b)
            elif kind == "i":
                try:
                    if int(cell) != val:
                        return "row %d col %s: %r != %r" % (i, names[j], cell, val)
                except ValueError:
                    return "row %d col %s: %r is not an int" % (i, names[j], cell)
            elif kind == "c":
                try:
                    z = complex(cell)
                except ValueError:
                    return "row %d col %s: %r is not a complex" % (i, names[j], cell)
                want = complex(*struct.unpack("<dd", bytes(val)))
                if not ((z.real == want.real or (z.real != z.real and want.real != want.real)) and
                        (z.imag == want.imag or (z.imag != z.imag and want.imag != want.imag))):
                    return "row %d col %s: %r reads back as %r, value was %r" % (i, names[j], cell, z, want)
            else:
                if cell != val:
                    return "row %d col %s: %r != %r" % (i, names[j], cell, val)
    return None


def int_equivalent(a, b):
    """Outcome for integer-typed points vs the outcome for the same points as floats: None if equivalent, else why not."""
    np = world.np
    if a[0] != b[0]:
        return "integer-typed points: %s; the same points as floats: %s" % (a[1] if a[0] == "exc" else a[0], b[1] if b[0] == "exc" else b[0])
    if a[0] != "ok":
        return None if a[:2] == b[:2] else "different exceptions: %s / %s" % (a[1], b[1])
    if a[1] != b[1] or a[5] != b[5]:
        return "field names or record count differ"
    for n, fa, fb in zip(a[1], a[2], b[2]):
        ka, kb = np.dtype(fa[0]).kind, np.dtype(fb[0]).kind
        if ka in "fiub" and kb in "fiub":
            xa = np.frombuffer(fa[2], dtype=fa[0]).astype(float)
            xb = np.frombuffer(fb[2], dtype=fb[0]).astype(float)
            if xa.shape != xb.shape:
                return "field %s: shapes differ" % n
            for va, vb in zip(xa.tolist(), xb.tolist()):
                if not _close(va, vb):
                    return "field %s: %r with integer-typed points, %r with the same points as floats" % (n, va, vb)
        elif fa[2] != fb[2]:
            return "field %s differs" % n
    return None


def judge_c05(spec, hist, refs):
    np = world.np
    viol = []
    stats = {"i1_calls": 0, "i3_named": 0, "i4_pairs": 0, "i6_dumps": 0, "i7_faulted_dumps": 0, "i7_raised": 0,
             "i7_returned_after_fault": 0, "i8_after_failed": 0, "i9_badnew": 0, "stream_faults_fired": 0,
             "unjudged_faulted": 0, "dump_nonoserror": 0}
    faulted = _faulted_steps(hist)
    tainted = set()
    failed_dump = set()
    iface = interface()

    def add(inv, i, op, detail):
        viol.append({"inv": inv, "step": i, "cls": short_cls(_cls_of(spec, op)), "fam": op.get("fam", _fam_of(spec, op)), "detail": detail})

    sol_owner = {}
    for op in spec["ops"]:
        if op["op"] == "call":
            sol_owner[op["sol"]] = op
    # I1 (any N): generic in-region requests of one object at one time are all served or all refused
    generic = {}
    for rec in hist["log"]:
        op = spec["ops"][rec["i"]]
        if op["op"] == "call" and op.get("generic") and rec["i"] not in faulted and rec["out"][0] in ("ok", "exc"):
            generic.setdefault((op["obj"], op["t"]), []).append((rec["i"], op, rec["out"]))
    for (oid, t), lst in generic.items():
        full = [x for x in lst if x[1].get("generic") == 40]
        stats["i1_generic_size_groups"] = stats.get("i1_generic_size_groups", 0) + 1
        if not full or full[0][2][0] != "ok":
            continue
        excs = [x for x in lst if x[2][0] == "exc" and x[1].get("generic") != 40]
        if excs:
            i, op, out = excs[0]
            n_bad, n_ok = op.get("generic"), 40
            add("I1", i, op, {"kind": "request-size-refused", "n_refused": n_bad, "n_served": n_ok, "exc": list(out[1:3])})
    for rec in hist["log"]:
        i = rec["i"]
        op = spec["ops"][i]
        out = rec["out"]
        for ev in rec["events"]:
            if ev[0] == "input-modified":
                add("I5", i, op, {"kind": "input-modified", "id": ev[1], "during": op["op"]})
            else:
                add("I2", i, op, {"kind": "solution-changed", "id": ev[1], "during": op["op"]})
        if i in faulted and op["op"] != "dump":
            stats["unjudged_faulted"] += 1
            if op["op"] == "new":
                tainted.add(op["obj"])
            continue
        if op["op"] == "new" and op.get("expect"):
            stats["i9_badnew"] += 1
            if not (out[0] == "exc" and (out[1] == op["expect"] or op["expect"] in (out[4] if len(out) > 4 else ()))):
                add("I9", i, op, {"kind": "bad-constructor", "expected": op["expect"],
                                  "got": list(out[:3]) if out[0] == "exc" else "constructed",
                                  "which": "missing" if op.get("missing") else "unknown", "kw": [k for k, _ in op.get("kw", {}).get("d", [])]})
            continue
        if op["op"] == "call" and out[0] == "ok" and op["obj"] not in tainted:
            pts = dec(op["pts"])
            layout = op.get("layout", "N")
            n = pts.shape[1] if layout == "2N" else pts.shape[0]
            d = 1 if layout == "N" else (2 if layout == "2N" else pts.shape[1])
            stats["i1_calls"] += 1
            if out[5] != n:
                add("I1", i, op, {"kind": "record-count", "requested": n, "returned": out[5]})
            # I2: the first d fields are the coordinates passed, bit for bit, in the order passed
            cols = [pts] if layout == "N" else ([pts[j, :] for j in range(2)] if layout == "2N" else [pts[:, j] for j in range(d)])
            names = out[1]
            okpos = len(names) >= d
            if okpos:
                for j in range(d):
                    f = out[2][j]
                    want = np.ascontiguousarray(cols[j], dtype=float)
                    if f[0] == "float64":
                        same = f[2] == want.tobytes()
                    elif np.dtype(f[0]).kind in "iu" and op.get("cont") in ("ilist", "iarr"):
                        # integer-typed points may come back integer-typed: unchanged means equal in value
                        same = np.array_equal(np.frombuffer(f[2], dtype=f[0]).astype(float), want)
                    else:
                        same = False
                    if not same:
                        okpos = False
                        break
            if not okpos:
                add("I2", i, op, {"kind": "positions-not-first", "names": list(names)[:8], "dim": d})
            # I3: field names and order as pinned
            want = iface.get(_cls_of(spec, op), {}).get(str(d))
            if want is not None:
                stats["i3_named"] += 1
                if list(names) != list(want):
                    add("I3", i, op, {"kind": "field-names", "returned": list(names), "pinned": list(want)})
            if not out[4].endswith("ExactSolution"):
                add("I3", i, op, {"kind": "return-type", "type": out[4]})
        if op["op"] == "call" and op.get("cont", "nd") != "nd" and op["obj"] not in tainted and i in refs:
            # I4: container equivalence, decided between two fresh evaluations (history cannot interfere)
            m = mini_spec(spec, i)
            m["ops"][-1] = dict(m["ops"][-1], cont="nd")
            ref_nd = reference(m)[0][-1]
            ref_own = refs[i][0][-1]
            stats["i4_pairs"] += 1
            if op["cont"] in ("ilist", "iarr"):
                # integer-typed points: equivalent means equal in value (the arithmetic may take an integer path and
                # round differently in the last place; the position field may keep the integer type)
                stats["i4_integer_typed"] = stats.get("i4_integer_typed", 0) + 1
                why = int_equivalent(ref_own, ref_nd)
                if why is not None:
                    add("I4", i, op, {"kind": "container", "container": op["cont"], "integer_typed": True, "why": why})
            elif not same_outcome(ref_own, ref_nd):
                add("I4", i, op, {"kind": "container", "container": op["cont"], "diff": describe_diff(ref_own, ref_nd)})
        if op["op"] == "dump" and out[0] == "dump":
            _, res, content, names, expect, leaked, fired, writes = out
            planned = bool(op.get("plan"))
            stats["stream_faults_fired"] += len(fired)
            for w in fired:
                cat = "stream_fault_at_" + ("open" if w == "open" else "close" if w == "close" else "write_call" if w.startswith("write#") else "byte_limit")
                stats[cat] = stats.get(cat, 0) + 1
            sid = op["sol"]
            if leaked:
                add("I7", i, op, {"kind": "handle-left-open", "count": leaked})
            if res[0] == "returned":
                why = check_csv(content, names, expect)
                if fired:
                    stats["i7_returned_after_fault"] += 1
                else:
                    stats["i6_dumps"] += 1
                if sid in failed_dump and not fired:
                    stats["i8_after_failed"] += 1
                if why is not None:
                    inv = "I7" if fired else ("I8" if sid in failed_dump else "I6")
                    add(inv, i, op, {"kind": "csv-roundtrip" if not fired else "csv-after-swallowed-error", "why": why,
                                     "device": op.get("dev", "sim"), "fired": fired})
                if not fired:
                    failed_dump.discard(sid)
            else:
                stats["i7_raised"] += 1
                failed_dump.add(sid)
                if not fired:
                    # dump raised although no stream fault fired: the writer itself failed
                    add("I6", i, op, {"kind": "dump-raised", "exc": res[1], "device": op.get("dev", "sim")})
                elif not res[2]:
                    stats["dump_nonoserror"] += 1
            if planned:
                stats["i7_faulted_dumps"] += 1
    return viol, stats
