"""Self-tests of the simulator (DESIGN.md §5): prove it before believing it.

  python -m sim.selftest determinism [--runs N]   same seed -> identical event-log fingerprints, across executions,
                                                  worker counts and PYTHONHASHSEED values
  python -m sim.selftest calibration              fork(pristine image) == truly fresh single-import interpreter
  python -m sim.selftest fixed                    every 'fixed' finding's replay no longer reproduces on this tree
  python -m sim.selftest mutants [names...]       every admitted mutant is caught (exit 1 from the check) on a scratch copy
"""
import argparse
import json
import os
import random
import shutil
import subprocess
import sys
import tempfile
import time

from .env import VERIF_ROOT

PY = sys.executable


def _run(cmd, env=None, timeout=3600, stdin=None):
    e = dict(os.environ)
    e.update(env or {})
    p = subprocess.run(cmd, cwd=VERIF_ROOT, env=e, capture_output=True, text=True, timeout=timeout, input=stdin)
    return p.returncode, p.stdout, p.stderr


def determinism(args):
    tmp = tempfile.mkdtemp(prefix="epsim_det_")
    configs = [("w16-a", 16, None), ("w16-b", 16, None), ("w4", 4, None), ("w1", 1, None), ("w16-hash12345", 16, "12345"), ("w7-hash1", 7, "1")]
    ok = True
    report = {}
    try:
        for mod, runs, corner in (("checks.c06", args.runs, args.runs // 2), ("checks.c05", args.runs // 2, 0)):
            for seed in args.seeds:
                fps = {}
                for name, w, hs in configs:
                    if name == "w1" and args.skip_w1:
                        continue
                    f = os.path.join(tmp, "%s-%s-%d.json" % (mod, name, seed))
                    env = {"VERIF_SEED": str(seed)}
                    if hs:
                        env["VERIF_HASHSEED"] = hs
                        env["PYTHONHASHSEED"] = hs
                    t0 = time.time()
                    rc, out, err = _run([PY, "-m", mod, "--tier", "quick", "--runs", str(runs), "--corner", str(corner), "--workers", str(w),
                                         "--fingerprints", f, "--no-evidence", "--no-shrink"], env=env)
                    if rc not in (0,) or not os.path.exists(f):
                        print("determinism: %s %s seed %d: exit %d\n%s\n%s" % (mod, name, seed, rc, out[-800:], err[-800:]))
                        ok = False
                        continue
                    fps[name] = json.load(open(f))
                    print("  %s seed=%d %-16s %d runs fingerprinted in %.0fs" % (mod, seed, name, len(fps[name]), time.time() - t0), flush=True)
                base = fps.get("w16-a")
                for name, fp in fps.items():
                    if base is None or fp != base:
                        diff = [k for k in sorted(set(base or {}) | set(fp)) if (base or {}).get(k) != fp.get(k)]
                        print("DIVERGENCE %s seed %d: %s differs from w16-a in %d runs, e.g. %s" % (mod, seed, name, len(diff), diff[:5]))
                        ok = False
                report["%s:%d" % (mod, seed)] = {"configs": sorted(fps), "runs": len(base or {})}
    finally:
        shutil.rmtree(tmp, ignore_errors=True)
    print("determinism: %s  %s" % ("OK" if ok else "FAILED", json.dumps(report)))
    return 0 if ok else 2


def calibration(args):
    from .env import ensure_env
    ensure_env("sim.selftest")
    from . import batch, gen as GEN, oracle as ORA, templates as T, world
    from .runner import _out_digest
    batch.init_world()
    rng = random.Random(7)
    bad = 0
    n = 0
    for fname, fam in T.FAMILIES.items():
        if fam.cost == "heavy" or fam.internal:
            continue
        if fname.startswith("cog") and fname not in ("cog1", "cog8", "cog19", "cog21"):
            continue
        g = GEN.Gen(rng, [fam], dict(GEN.BASE_CFG, n_choices=[5], bb_setters=0.0, share_eos=0, share_ic=0, explicit_ic=0.0, plain_container=1.0, refill=0.0))
        st = g.new_op(0, fam, qual="exactpack.solvers." + fam.classes[0], pi=0)
        pts, t, lay = g.request_points(st, n=5, v=0)
        g.call_op(0, st, pts, t, lay, cont="nd")
        spec = {"ops": g.ops}
        mini = ORA.mini_spec(spec, len(g.ops) - 1)
        ref = ORA.reference(mini)[0]
        want = [("exc:" + o[1]) if o[0] == "exc" else _out_digest(o) for o in ref]
        for hs in ("0", "1", "12345"):
            rc, out, err = _run([PY, "-m", "sim.fresh"], env={"VERIF_HASHSEED": hs, "PYTHONHASHSEED": hs}, stdin=json.dumps(mini), timeout=900)
            n += 1
            try:
                got = json.loads(out.strip().splitlines()[-1])
            except Exception:
                print("calibration: %s hashseed %s: fresh interpreter failed (rc %d): %s" % (fname, hs, rc, err[-500:]))
                bad += 1
                continue
            if got["digests"] != want:
                bad += 1
                print("CALIBRATION MISMATCH %s hashseed %s: fork %s fresh %s" % (fname, hs, want, got["digests"]))
        print("  %-22s fork(pristine) == fresh interpreter (imported only %s)" % (fname, got.get("solver_packages_imported")), flush=True)
    print("calibration: %d comparisons, %d mismatches -> %s" % (n, bad, "OK" if not bad else "FAILED"))
    return 0 if not bad else 2


def fixed(args):
    known = json.load(open(os.path.join(VERIF_ROOT, "known_findings.json")))["findings"]
    bad = 0
    for e in known:
        if e.get("status") != "fixed" or not e.get("replay"):
            continue
        mod = "checks." + e["property"].lower()
        rc, out, err = _run([PY, "-m", mod, "--replay", e["replay"]])
        state = {0: "holds (fixed)", 1: "REPRODUCES AGAIN", 2: "harness error"}.get(rc, "exit %d" % rc)
        print("  %-45s %s" % (e["id"], state))
        if rc != 0:
            bad += 1
            print(out[-600:], err[-300:])
    print("fixed findings: %s" % ("OK" if not bad else "FAILED"))
    return 0 if not bad else 1


def _scratch_tree(patch):
    """Scratch copy of the tree under test with ``patch`` applied; returns its path (caller removes it)."""
    from .env import src_root
    d = tempfile.mkdtemp(prefix="epsim_mut_")
    src = src_root()
    shutil.copytree(os.path.join(src, "exactpack"), os.path.join(d, "exactpack"),
                    ignore=shutil.ignore_patterns("__pycache__", "*.pyc"))
    p = subprocess.run(["patch", "-p1", "-s", "-i", os.path.abspath(patch)], cwd=d, capture_output=True, text=True)
    if p.returncode != 0:
        shutil.rmtree(d, ignore_errors=True)
        raise RuntimeError("patch %s does not apply: %s %s" % (patch, p.stdout, p.stderr))
    return d


def mutants(args):
    """Apply each registered change to a scratch copy and expect the property's quick check to exit 1."""
    roots = []
    for base in ("mutants", "seeded"):
        bd = os.path.join(VERIF_ROOT, base)
        if not os.path.isdir(bd):
            continue
        for name in sorted(os.listdir(bd)):
            meta = os.path.join(bd, name, "meta.json")
            if os.path.exists(meta) and (not args.names or name in args.names):
                roots.append(os.path.join(bd, name))
    results = {}
    missed = 0
    for r in roots:
        meta = json.load(open(os.path.join(r, "meta.json")))
        prop = meta["property"]
        d = _scratch_tree(os.path.join(r, "patch.diff"))
        try:
            cmd = [PY, "-m", "checks." + prop.lower(), "--tier", "quick", "--no-evidence"]
            if args.fast and meta.get("only"):
                cmd += ["--only", meta["only"]]
            t0 = time.time()
            rc, out, err = _run(cmd, env={"EXACTPACK_SRC": d}, timeout=3600)
            lines = [l for l in out.splitlines() if l.startswith("VIOLATION")]
            caught = rc == 1 and bool(lines)
            results[os.path.basename(r)] = {"property": prop, "caught": caught, "exit": rc, "wall_s": round(time.time() - t0),
                                            "violations": [l.split("replay=")[-1].split("/")[-1] for l in lines][:4]}
            print("  %-40s %s exit=%d %4.0fs %s" % (os.path.basename(r), "CAUGHT" if caught else "MISSED", rc, time.time() - t0,
                                                     results[os.path.basename(r)]["violations"][:2]), flush=True)
            if not caught:
                missed += 1
                print(out[-500:], err[-300:])
            # replays of scratch-tree violations are not evidence about /repo: remove them
            for l in lines:
                p = l.split("replay=")[-1].strip()
                if os.path.exists(p):
                    os.unlink(p)
        finally:
            shutil.rmtree(d, ignore_errors=True)
    out_path = os.path.join(VERIF_ROOT, "evidence", "sensitivity.json")
    if not args.names:
        with open(out_path, "w") as f:
            json.dump({"results": results, "missed": missed, "total": len(results)}, f, indent=1)
            f.write("\n")
    print("mutants: %d/%d caught" % (len(results) - missed, len(results)))
    return 0 if not missed else 1


def main(argv=None):
    ap = argparse.ArgumentParser(prog="sim.selftest")
    sub = ap.add_subparsers(dest="cmd", required=True)
    d = sub.add_parser("determinism")
    d.add_argument("--runs", type=int, default=200)
    d.add_argument("--seeds", type=int, nargs="+", default=[20260925, 7])
    d.add_argument("--skip-w1", action="store_true")
    sub.add_parser("calibration")
    sub.add_parser("fixed")
    m = sub.add_parser("mutants")
    m.add_argument("names", nargs="*")
    m.add_argument("--fast", action="store_true", help="restrict each run to the families named in the mutant's meta.json")
    args = ap.parse_args(argv)
    return {"determinism": determinism, "calibration": calibration, "fixed": fixed, "mutants": mutants}[args.cmd](args)


if __name__ == "__main__":
    sys.exit(main())
