"""Self-tests of the simulator (DESIGN.md §5): prove it before believing it.

  python -m sim.selftest determinism [--runs N]   same seed -> identical event-log fingerprints, across executions,
                                                  worker counts and PYTHONHASHSEED values
  python -m sim.selftest calibration              fork(pristine image) == truly fresh single-import interpreter
  python -m sim.selftest fixed                    every 'fixed' finding's replay no longer reproduces on this tree
  python -m sim.selftest mutants [names...]       every admitted mutant is caught (exit 1 from the check) on a scratch copy
"""
import argparse
import json
import os
import random
import shutil
import subprocess
import sys
import tempfile
import time

from .env import VERIF_ROOT

PY = sys.executable


def _run(cmd, env=None, timeout=3600, stdin=None):
    e = dict(os.environ)
    e.update(env or {})
    p = subprocess.run(cmd, cwd=VERIF_ROOT, env=e, capture_output=True, text=True, timeout=timeout, input=stdin)
    return p.returncode, p.stdout, p.stderr


def determinism(args):
    tmp = tempfile.mkdtemp(prefix="epsim_det_")
    configs = [("w16-a", 16, None), ("w16-b", 16, None), ("w4", 4, None), ("w1", 1, None), ("w16-hash12345", 16, "12345"), ("w7-hash1", 7, "1")]
    ok = True
    report = {}
    try:
        for mod, runs, corner in (("checks.c06", args.runs, args.runs // 2), ("checks.c05", args.runs // 2, 0)):
            for seed in args.seeds:
                fps = {}
                for name, w, hs in configs:
                    if name == "w1" and args.skip_w1:
                        continue
                    f = os.path.join(tmp, "%s-%s-%d.json" % (mod, name, seed))
                    env = {"VERIF_SEED": str(seed)}
                    if hs:
                        env["VERIF_HASHSEED"] = hs
                        env["PYTHONHASHSEED"] = hs
                    t0 = time.time()
                    rc, out, err = _run([PY, "-m", mod, "--tier", "quick", "--runs", str(runs), "--corner", str(corner), "--workers", str(w),
                                         "--fingerprints", f, "--no-evidence", "--no-shrink"], env=env)
                    if rc not in (0,) or not os.path.exists(f):
                        print("determinism: %s %s seed %d: exit %d\n%s\n%s" % (mod, name, seed, rc, out[-800:], err[-800:]))
                        ok = False
                        continue
                    fps[name] = json.load(open(f))
                    print("  %s seed=%d %-16s %d runs fingerprinted in %.0fs" % (mod, seed, name, len(fps[name]), time.time() - t0), flush=True)
                base = fps.get("w16-a")
                for name, fp in fps.items():
                    if base is None or fp != base:
                        diff = [k for k in sorted(set(base or {}) | set(fp)) if (base or {}).get(k) != fp.get(k)]
                        print("DIVERGENCE %s seed %d: %s differs from w16-a in %d runs, e.g. %s" % (mod, seed, name, len(diff), diff[:5]))
                        ok = False
                report["%s:%d" % (mod, seed)] = {"configs": sorted(fps), "runs": len(base or {})}
    finally:
        shutil.rmtree(tmp, ignore_errors=True)
    print("determinism: %s  %s" % ("OK" if ok else "FAILED", json.dumps(report)))
    return 0 if ok else 2


def calibration(args):
    from .env import ensure_env
    ensure_env("sim.selftest")
    from . import batch, gen as GEN, oracle as ORA, templates as T, world
    from .runner import _out_digest
    batch.init_world()
    rng = random.Random(7)
    bad = 0
    n = 0
    for fname, fam in T.FAMILIES.items():
        if fam.cost == "heavy" or fam.internal:
            continue
        if fname.startswith("cog") and fname not in ("cog1", "cog8", "cog19", "cog21"):
            continue
        g = GEN.Gen(rng, [fam], dict(GEN.BASE_CFG, n_choices=[5], bb_setters=0.0, share_eos=0, share_ic=0, explicit_ic=0.0, plain_container=1.0, refill=0.0))
        st = g.new_op(0, fam, qual="exactpack.solvers." + fam.classes[0], pi=0)
        pts, t, lay = g.request_points(st, n=5, v=0)
        g.call_op(0, st, pts, t, lay, cont="nd")
        spec = {"ops": g.ops}
        mini = ORA.mini_spec(spec, len(g.ops) - 1)
        ref = ORA.reference(mini)[0]
        want = [("exc:" + o[1]) if o[0] == "exc" else _out_digest(o) for o in ref]
        for hs in ("0", "1", "12345"):
            rc, out, err = _run([PY, "-m", "sim.fresh"], env={"VERIF_HASHSEED": hs, "PYTHONHASHSEED": hs}, stdin=json.dumps(mini), timeout=900)
            n += 1
            try:
                got = json.loads(out.strip().splitlines()[-1])
            except Exception:
                print("calibration: %s hashseed %s: fresh interpreter failed (rc %d): %s" % (fname, hs, rc, err[-500:]))
                bad += 1
                continue
            if got["digests"] != want:
                bad += 1
                print("CALIBRATION MISMATCH %s hashseed %s: fork %s fresh %s" % (fname, hs, want, got["digests"]))
        print("  %-22s fork(pristine) == fresh interpreter (imported only %s)" % (fname, got.get("solver_packages_imported")), flush=True)
    print("calibration: %d comparisons, %d mismatches -> %s" % (n, bad, "OK" if not bad else "FAILED"))
    return 0 if not bad else 2


def fixed(args):
    known = json.load(open(os.path.join(VERIF_ROOT, "known_findings.json")))["findings"]
    bad = 0
    for e in known:
        if e.get("status") != "fixed" or not e.get("replay"):
            continue
        mod = "checks." + e["property"].lower()
        for rp in e.get("replays") or [e["replay"]]:
            rc, out, err = _run([PY, "-m", mod, "--replay", rp])
            state = {0: "holds (fixed)", 1: "REPRODUCES AGAIN", 2: "harness error"}.get(rc, "exit %d" % rc)
            print("  %-45s %-55s %s" % (e["id"], rp, state))
            if rc != 0:
                bad += 1
                print(out[-600:], err[-300:])
    print("fixed findings: %s" % ("OK" if not bad else "FAILED"))
    return 0 if not bad else 1


def _scratch_tree(patch):
    """Scratch copy of the tree under test with ``patch`` applied; returns its path (caller removes it)."""
    from .env import src_root
    d = tempfile.mkdtemp(prefix="epsim_mut_")
    src = src_root()
    shutil.copytree(os.path.join(src, "exactpack"), os.path.join(d, "exactpack"),
                    ignore=shutil.ignore_patterns("__pycache__", "*.pyc"))
    p = subprocess.run(["patch", "-p1", "-s", "-i", os.path.abspath(patch)], cwd=d, capture_output=True, text=True)
    if p.returncode != 0:
        shutil.rmtree(d, ignore_errors=True)
        raise RuntimeError("patch %s does not apply: %s %s" % (patch, p.stdout, p.stderr))
    return d


def mutants(args):
    """Apply each registered change to a scratch copy and expect the property's quick check to exit 1."""
    roots = []
    for base in ("mutants", "seeded"):
        bd = os.path.join(VERIF_ROOT, base)
        if not os.path.isdir(bd):
            continue
        for name in sorted(os.listdir(bd)):
            meta = os.path.join(bd, name, "meta.json")
            if os.path.exists(meta) and (not args.names or name in args.names):
                roots.append(os.path.join(bd, name))
    results = {}
    missed = 0
    for r in roots:
        meta = json.load(open(os.path.join(r, "meta.json")))
        prop = meta["property"]
        d = _scratch_tree(os.path.join(r, "patch.diff"))
        try:
            cmd = [PY, "-m", "checks." + prop.lower(), "--tier", "quick", "--no-evidence"]
            if args.fast and meta.get("only"):
                cmd += ["--only", meta["only"]]
            t0 = time.time()
            rc, out, err = _run(cmd, env={"EXACTPACK_SRC": d}, timeout=3600)
            lines = [l for l in out.splitlines() if l.startswith("VIOLATION")]
            caught = rc == 1 and bool(lines)
            results[os.path.basename(r)] = {"property": prop, "caught": caught, "exit": rc, "wall_s": round(time.time() - t0),
                                            "violations": [l.split("replay=")[-1].split("/")[-1] for l in lines][:4]}
            print("  %-40s %s exit=%d %4.0fs %s" % (os.path.basename(r), "CAUGHT" if caught else "MISSED", rc, time.time() - t0,
                                                     results[os.path.basename(r)]["violations"][:2]), flush=True)
            if not caught:
                missed += 1
                print(out[-500:], err[-300:])
            # replays of scratch-tree violations are not evidence about /repo: remove them
            for l in lines:
                p = l.split("replay=")[-1].strip()
                if os.path.exists(p):
                    os.unlink(p)
        finally:
            shutil.rmtree(d, ignore_errors=True)
    out_path = os.path.join(VERIF_ROOT, "sensitivity_selftest.json")
    if not args.names:
        with open(out_path, "w") as f:
            json.dump({"results": results, "missed": missed, "total": len(results)}, f, indent=1)
            f.write("\n")
    print("mutants: %d/%d caught" % (len(results) - missed, len(results)))
    return 0 if not missed else 1


def oracle_unit(args):
    """Synthetic cases for the oracles themselves: each must be judged the way a reader of DESIGN.md expects."""
    from .env import ensure_env
    ensure_env("sim.selftest")
    from . import batch, ops as OPS, oracle as ORA, world
    from .codec import enc, fhex
    batch.init_world()
    np = world.np
    bad = []

    def expect(name, cond):
        print("  %-70s %s" % (name, "ok" if cond else "WRONG"))
        if not cond:
            bad.append(name)

    def hist(ops, run=None, faults=None):
        r = world.infork(lambda: OPS.run_history({"ops": ops, "faults": faults or [], "run": run or {}}))
        assert r[0] == "ok", r
        return r[1]
    new = {"op": "new", "c": 0, "obj": "S1", "cls": "verif.probe.ProbeValues", "kw": enc({}), "fam": "probe_values", "pi": 0}
    call = {"op": "call", "c": 0, "obj": "S1", "buf": "B1", "pts": enc(np.linspace(0., 1., 30)), "cont": "nd", "t": fhex(1.0), "sol": "R1", "layout": "N", "fam": "probe_values"}

    def dump(**kw):
        d = {"op": "dump", "c": 0, "sol": "R1", "dev": "sim", "bufsize": 8192}
        d.update(kw)
        return d
    h = hist([new, call, dump(), dump(dev="file"), dump(bufsize=1), dump(plan=enc({"short": 3}))])
    for i, label in ((2, "sim device"), (3, "real file"), (4, "1-byte buffer"), (5, "short raw writes")):
        _, res, content, names, exp, leaked, fired, writes = h["log"][i]["out"]
        expect("fault-free dump through %s round-trips every special value" % label, res[0] == "returned" and ORA.check_csv(content, names, exp) is None and not leaked)
    _, res, content, names, exp, leaked, fired, writes = h["log"][2]["out"]
    expect("real file and sim device produce identical bytes", h["log"][2]["out"][2] == h["log"][3]["out"][2])
    expect("check_csv rejects a truncated file", ORA.check_csv(content[:len(content) // 2], names, exp) is not None)
    expect("check_csv rejects a renamed header", ORA.check_csv(content.replace(b"position", b"radius", 1), names, exp) is not None)
    expect("check_csv rejects -0.0 written as 0.0", ORA.check_csv(content.replace(b"-0.0", b"0.0", 1), names, exp) is not None)
    expect("check_csv rejects a 15-digit rendering of 0.30000000000000004", ORA.check_csv(content.replace(b"0.30000000000000004", b"0.3"), names, exp) is not None)
    expect("check_csv rejects a dropped row", ORA.check_csv(b"\r\n".join(content.split(b"\r\n")[:5] + content.split(b"\r\n")[6:]), names, exp) is not None)
    # stream faults: every plan either raises OSError or (short writes only) completes; nothing is left open
    for plan in ({"fail_open": True, "errno": "EMFILE"}, {"fail_at_byte": 0}, {"fail_at_byte": 100}, {"fail_write_call": 1, "errno": "EIO"},
                 {"fail_close": True, "errno": "EIO"}, {"short": 7, "fail_at_byte": 200}):
        for bs in (1, 64, 8192):
            h2 = hist([new, call, dump(plan=enc(plan), bufsize=bs), dump()])
            _, res, content, names, exp, leaked, fired, writes = h2["log"][2]["out"]
            expect("plan %s bufsize %d: dump raises OSError, no handle left open" % (plan, bs), res[0] == "raised" and res[2] and not leaked and fired)
            _, res, content, names, exp, leaked, fired, writes = h2["log"][3]["out"]
            expect("  ... and the next fault-free dump is complete (I8)", res[0] == "returned" and ORA.check_csv(content, names, exp) is None)
    # H1 / H4 plumbing
    a = ("ok", ("position", "v"), (("float64", (2,), np.array([1., 2.]).tobytes()), ("float64", (2,), np.array([3., 4.]).tobytes())), "[]", "exactpack.base.ExactSolution", 2)
    b = ("ok", ("position", "v"), (("float64", (2,), np.array([1., 2.]).tobytes()), ("float64", (2,), np.array([3., np.nextafter(4., 5.)]).tobytes())), "[]", "exactpack.base.ExactSolution", 2)
    expect("H1 is bitwise: one ulp is a mismatch", ORA.same_outcome(a, a) and not ORA.same_outcome(a, b))
    expect("H1 compares exception types, not messages", ORA.same_outcome(("exc", "ValueError", "x"), ("exc", "ValueError", "y")) and not ORA.same_outcome(("exc", "ValueError", "x"), ("exc", "TypeError", "x")))
    expect("H4 tolerance accepts 1e-14 relative and rejects 1e-6", ORA._close(1.0, 1.0 + 1e-14) and not ORA._close(1.0, 1.0 + 1e-6) and ORA._close(float("nan"), float("nan")) and not ORA._close(float("nan"), 1.0))
    print("oracle unit: %s" % ("OK" if not bad else "FAILED: %r" % bad))
    return 0 if not bad else 2


def main(argv=None):
    ap = argparse.ArgumentParser(prog="sim.selftest")
    sub = ap.add_subparsers(dest="cmd", required=True)
    d = sub.add_parser("determinism")
    d.add_argument("--runs", type=int, default=200)
    d.add_argument("--seeds", type=int, nargs="+", default=[20260925, 7])
    d.add_argument("--skip-w1", action="store_true")
    sub.add_parser("calibration")
    sub.add_parser("fixed")
    m = sub.add_parser("mutants")
    m.add_argument("names", nargs="*")
    m.add_argument("--fast", action="store_true", help="restrict each run to the families named in the mutant's meta.json")
    sub.add_parser("oracle")
    args = ap.parse_args(argv)
    return {"determinism": determinism, "calibration": calibration, "fixed": fixed, "mutants": mutants, "oracle": oracle_unit}[args.cmd](args)


if __name__ == "__main__":
    sys.exit(main())
