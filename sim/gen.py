"""Seeded generation of simulated sessions: swarm configuration, clients, schedule, fault intents.

``make_run(seed, tier, index, prop)`` is a pure function of its arguments and the census.  The
result is an explicit, JSON-safe *spec*; nothing downstream consults the PRNG again except
``resolve_faults`` which uses the per-spec stream stored in the spec itself.
"""
import random

from . import templates as T
from . import world
from .codec import enc, fhex, h64
from .ops import containers_for

ODD_TIMES = [0.0, -0.5]
UNKNOWN_VALUES = [1.0, None, 1.0, 0, "x", 1.0, None]     # the value given to an unknown parameter name must not matter
COMMON_NAMES = ["gamma", "geometry", "rho0", "u0", "M0", "D", "L", "Nsum", "eblast", "omega", "t_f", "Gamma", "xnodes"]
ALLOC_PATTERNS = [0.0, 1.0, 123.456, float("nan"), 1e300, -1.0]
FAULT_KINDS = ["dep", "abort", "devnull", "nofile", "alias", "lifetime", "alloc"]
N_CHOICES = [1, 2, 3, 5, 7, 12, 40]


ONLY = None   # optional family filter (development / targeted runs): set of family names


def _enabled(f, tier):
    if f.internal:
        return False
    if ONLY is not None:
        return f.name in ONLY
    return not (f.cost == "heavy" and tier != "thorough")


def tier_families(tier, prop):
    return [f for f in T.FAMILIES.values() if _enabled(f, tier)]


class ObjState(object):
    def __init__(self, oid, qual, fam, pi, new_op, client):
        self.oid, self.qual, self.fam, self.pi, self.new_op, self.client = oid, qual, fam, pi, new_op, client
        self.cfg = []
        self.called = False
        self.requests = []   # (pts ndarray, t hex, layout)
        self.alive = True


class Gen(object):
    def __init__(self, rng, fams, cfg):
        self.rng = rng
        self.fams = fams
        self.cfg = cfg
        self.ops = []
        self.objs = []
        self.nbuf = 0
        self.nsol = 0
        self.neos = 0
        self.nic = 0
        self.eos_ids = {}     # canonical eos spec -> id (for sharing)
        self.ic_ids = []      # (id, encoded val)
        self.bufs = {}        # buf id -> (shape, cont)
        self.sols = []        # sol ids
        self.census = world.CENSUS

    # -- helpers ------------------------------------------------------------------------------
    def pick_class(self, fam):
        quals = ["exactpack.solvers." + c for c in fam.classes if "exactpack.solvers." + c in self.census] \
            or [c for c in fam.classes if c in self.census]
        rng = self.rng
        # bias towards the base (first) class so that parameter sets vary
        q = quals[0] if rng.random() < 0.6 else rng.choice(quals)
        return q

    def new_op(self, client, fam, qual=None, pi=None, bad=None):
        rng = self.rng
        qual = qual or self.pick_class(fam)
        cls = self.census[qual]
        _, usable = T.pool_for(qual, cls)
        if not usable:
            return None
        if pi is None:
            pi, kw = rng.choice(usable)
        else:
            cand = [u for u in usable if u[0] == pi]
            pi, kw = cand[0] if cand else rng.choice(usable)
        ps = fam.pool[pi]
        kw = dict(kw)
        if bad == "unknown":
            kw[rng.choice(unknown_names(cls))] = rng.choice(UNKNOWN_VALUES)
        oid = "S%d" % (len(self.objs) + 1)
        op = {"op": "new", "c": client, "obj": oid, "cls": qual, "kw": enc(kw), "fam": fam.name, "pi": pi}
        if ps.eos is not None:
            espec = {"cls": ps.eos[0], "args": enc(list(ps.eos[1]))}
            ek = repr(espec)
            if ek in self.eos_ids and rng.random() < self.cfg["share_eos"]:
                eid = self.eos_ids[ek]
            else:
                self.neos += 1
                eid = "E%d" % self.neos
                self.eos_ids[ek] = eid
            op["eos"] = dict(espec, id=eid)
            g = ps.kwargs.get("geometry", 3)
            is_base = cls.__name__ == "NohBlackBoxEos"
            ic = ps.ic
            if is_base:
                ic = dict(ic or {'density': 1, 'velocity': -1, 'pressure': 0})
                ic["symmetry"] = T.BB_SYMMETRY[g]
            elif ic is None and rng.random() < self.cfg["explicit_ic"]:
                ic = {'density': 1, 'velocity': -1, 'pressure': 0}
            if ic is not None:
                val = enc(ic)
                shared = [x for x in self.ic_ids if not is_base and "symmetry" not in dict(x[2])]
                if shared and not is_base and rng.random() < self.cfg["share_ic"]:
                    iid, val, _ = rng.choice(shared)
                else:
                    self.nic += 1
                    iid = "D%d" % self.nic
                    self.ic_ids.append((iid, val, ic))
                op["ic"] = {"id": iid, "val": val}
        self.ops.append(op)
        st = ObjState(oid, qual, fam, pi, op, client)
        self.objs.append(st)
        if bad:
            st.alive = False
            return st
        if ps.guess is not None:
            c = {"op": "cfg", "c": client, "obj": oid, "m": "set_new_solver_initial_guess", "a": enc([list(ps.guess)])}
            self.ops.append(c)
            st.cfg.append(c)
            if rng.random() < self.cfg["bb_setters"]:
                r = rng.random()
                if r < 0.5:
                    tol = rng.choice([1e-2, 1e-4, 1e-8, 1e-12, 1e-13])
                    c = {"op": "cfg", "c": client, "obj": oid, "m": "set_new_solver_tolerance", "a": enc([tol])}
                elif r < 0.75:
                    c = {"op": "cfg", "c": client, "obj": oid, "m": "solve_jump_conditions", "a": []}
                else:
                    c = {"op": "cfg", "c": client, "obj": oid, "m": "set_new_solver_max_iterations", "a": enc([rng.choice([3, 50, 1000])])}
                self.ops.append(c)
                st.cfg.append(c)
        return st

    def request_points(self, st, n=None, v=None, pi=None, generic=False):
        rng = self.rng
        fam = st.fam
        ps = fam.pool[st.pi if pi is None else pi]
        if n is None:
            n = rng.choice(self.cfg["n_choices"])
        n = max(n, fam.min_n)
        if v is None:
            v = 0 if rng.random() < 0.4 else rng.randrange(8)
        pts = ps.pts.gen(n, v)
        layout = ps.pts.layout
        axis = 1 if layout == "2N" else 0
        if generic:
            return pts, fhex(ps.times[0]), layout
        if hasattr(ps.pts, "special") and rng.random() < self.cfg.get("special_pts", 0.25):
            # unusual but legal points: region ends, simple fractions, the origin -- some or all of the request
            k_all = pts.shape[axis]
            which = list(range(k_all)) if rng.random() < 0.35 else rng.sample(range(k_all), rng.randint(1, k_all))
            for j in which:
                sp = ps.pts.special(rng)
                if sp is None:
                    continue
                if layout == "2N":
                    pts[:, j] = sp
                else:
                    pts[j] = sp
        if fam.gran != "mesh" and not isinstance(ps.pts, T.PLin) and rng.random() < self.cfg.get("nonfinite_pts", 0.03):
            j = rng.randrange(pts.shape[axis])
            bad = rng.choice([float("nan"), float("inf")])
            if layout == "2N":
                pts[rng.randrange(2), j] = bad
            elif pts.ndim == 1:
                pts[j] = bad
            else:
                pts[j, rng.randrange(pts.shape[1])] = bad
        times = list(ps.times)
        if len(times) == 1 and times[0] > 0:
            times.append(times[0] * 0.5)      # every parameter set is exercised at two times at least
        t = times[0] if rng.random() < 0.6 else rng.choice(times)
        if rng.random() < self.cfg.get("odd_time", 0.04):
            t = rng.choice(ODD_TIMES)     # branch-selecting times (t <= 0): whatever happens must happen the same when fresh
        elif st.requests and rng.random() < self.cfg.get("near_time", 0.06):
            # a time different from, but nearly equal to, one this object was already asked for (a time step)
            t = float.fromhex(rng.choice(st.requests)[1]) * (1.0 + rng.choice([2.0 ** -20, -2.0 ** -20, 2.0 ** -36]))
        return pts, fhex(t), ps.pts.layout

    def call_op(self, client, st, pts, thex, layout, cont=None, buf=None):
        rng = self.rng
        if cont is None:
            cont = "nd" if rng.random() < self.cfg["plain_container"] else rng.choice(containers_for(layout))
            if cont == "fortran" and pts.ndim < 2:
                cont = "nd"
        if buf is None:
            # sometimes refill a buffer of the same shape (the same ndarray object)
            same = [b for b, (shape, c) in sorted(self.bufs.items()) if shape == pts.shape and c == cont and c in ("nd", "strided", "ro", "fortran")]
            if same and rng.random() < self.cfg["refill"]:
                buf = rng.choice(same)
            else:
                self.nbuf += 1
                buf = "B%d" % self.nbuf
        self.bufs[buf] = (pts.shape, cont)
        self.nsol += 1
        sid = "R%d" % self.nsol
        self.sols.append(sid)
        op = {"op": "call", "c": client, "obj": st.oid, "buf": buf, "pts": enc(pts), "cont": cont, "t": thex,
              "sol": sid, "layout": layout, "fam": st.fam.name}
        self.ops.append(op)
        st.called = True
        st.requests.append((pts, thex, layout))
        return op

    def aux_op(self, client, st):
        """A documented helper of the solver object, between its calls."""
        np = world.np
        rng = self.rng
        name = st.qual.rsplit(".", 1)[-1]
        if name == "SteadyDetonationReactionZone":
            t_end = float.fromhex(rng.choice(st.requests)[1]) if st.requests and rng.random() < 0.7 else rng.choice([0.5, 1.0, 1.2, 2.0])
            if not (t_end > 0):
                t_end = 1.0
            tvec = np.linspace(0.0, t_end, rng.choice([5, 11, 21, 201]))
            op = {"op": "aux", "c": client, "obj": st.oid, "m": "run_tvec", "a": enc([tvec]),
                  "k": enc({"useExactLambda": rng.random() < 0.6}), "fam": st.fam.name}
        elif name in ("nED_Solver", "ie_Solver"):
            op = {"op": "aux", "c": client, "obj": st.oid, "m": "setup_solver", "a": enc([]), "fam": st.fam.name}
        else:
            return None
        self.ops.append(op)
        return op

    def recall(self, client, st):
        """Re-request an earlier request of this object with a changed point set (batch clause)."""
        np = world.np
        rng = self.rng
        pts, thex, layout = rng.choice(st.requests)
        gran = st.fam.gran
        how = rng.choice(["verbatim", "permuted", "thinned", "duplicated", "extended"])
        if gran == "mesh":
            how = "verbatim"
        elif gran not in ("mader",) and rng.random() < 0.06:
            # the same integer-valued points once written as integers ([0, 1, 2] / arange) and once as floats: the value at
            # a point must not depend on the type the request happened to have (H4 compares the two requests)
            ipts = np.rint(pts * 2.0 + 1.0)
            ipts = np.clip(np.where(np.isfinite(ipts), ipts, 0.0) + 0.0, -1.0e6, 1.0e6)
            self.call_op(client, st, ipts, thex, layout, cont=rng.choice(["ilist", "iarr"]))
            return self.call_op(client, st, ipts, thex, layout, cont="nd")
        axis = 1 if layout == "2N" else 0
        n = pts.shape[axis]
        idx = list(range(n))
        keep_ends = gran in ("mader",)
        keep_max = gran in ("ep_piston", "sedov")
        imax = int(np.argmax(pts)) if (keep_max and pts.ndim == 1) else None
        if how == "permuted":
            if keep_ends:
                mid = idx[1:-1]
                rng.shuffle(mid)
                idx = [idx[0]] + mid + [idx[-1]]
            else:
                rng.shuffle(idx)
        elif how == "thinned" and n > st.fam.min_n:
            if keep_ends:
                how = "verbatim"   # thinning a Mader request changes its cell size: covered by H1 only
            else:
                k = rng.randint(max(1, st.fam.min_n), n - 1)
                sel = sorted(rng.sample(idx, k))
                if imax is not None and imax not in sel:
                    sel[-1] = imax
                    sel = sorted(set(sel))
                idx = sel
        elif how == "duplicated":
            if keep_ends:
                how = "verbatim"
            else:
                extra = [rng.choice(idx) for _ in range(rng.randint(1, 3))]
                idx = idx + extra
                if rng.random() < 0.5:
                    rng.shuffle(idx)
        new = np.take(pts, idx, axis=axis)
        if how == "extended" and not keep_ends and gran != "mesh":
            more, _, _ = self.request_points(st, n=rng.choice([1, 2, 5]), v=rng.randrange(8))
            if pts.ndim == 1:
                lo, hi = float(pts.min()), float(pts.max())
                inner = more[(more > lo) & (more < hi)]
                if st.fam.gran == "sedov" and rng.random() < self.cfg["grid_change"]:
                    inner = more  # may extend max(r): the internal grid changes (documented resolution)
                new = np.concatenate([pts, inner])
            else:
                new = np.concatenate([pts, more], axis=axis)
        return self.call_op(client, st, new, thex, layout)

    # -- client behaviour ---------------------------------------------------------------------
    def client_step(self, client, my_fams):
        rng = self.rng
        cfg = self.cfg
        mine = [o for o in self.objs if o.alive and (o.client == client)]
        others = [o for o in self.objs if o.alive and (o.client != client)]
        r = rng.random()
        if not mine or (r < cfg["p_new"] and len(mine) < cfg["max_objs"]):
            # prefer a second object of a module already in use, with another parameter set
            if mine and rng.random() < cfg["same_module"]:
                base = rng.choice(mine)
                fam = base.fam
                st = self.new_op(client, fam)
            else:
                fam = rng.choice(my_fams)
                bad = "unknown" if rng.random() < cfg["p_badnew"] else None
                st = self.new_op(client, fam, bad=bad)
            return
        r = rng.random()
        pool = mine
        if others and rng.random() < cfg["p_share"]:
            pool = others
        st = rng.choice(pool)
        if st.fam.name in ("sdrz", "radshock_ned", "radshock_ie") and rng.random() < 0.15 and self.aux_op(client, st) is not None:
            return
        if r < cfg["p_recall"] and st.requests:
            self.recall(client, st)
        elif r < cfg["p_recall"] + cfg["p_scribble"] and (self.bufs or self.sols):
            if self.sols and rng.random() < 0.4:
                tgt = rng.choice(self.sols[-6:])
            elif self.bufs:
                tgt = rng.choice(sorted(self.bufs)[-6:])
            else:
                tgt = rng.choice(self.sols[-6:])
            self.ops.append({"op": "scribble", "c": client, "target": tgt, "mode": rng.choice(["junk", "nan", "zero"])})
        elif r < cfg["p_recall"] + cfg["p_scribble"] + cfg["p_drop"] and len(mine) > 1:
            st = rng.choice(mine)
            st.alive = False
            self.ops.append({"op": "drop", "c": client, "obj": st.oid})
        elif r < cfg["p_recall"] + cfg["p_scribble"] + cfg["p_drop"] + cfg["p_churn"]:
            fam = st.fam
            tmp = Gen(random.Random(rng.getrandbits(32)), self.fams, self.cfg)
            tmp.census = self.census
            s2 = tmp.new_op(client, fam)
            if s2 is not None:
                op = dict(s2.new_op)
                op["op"] = "churn"
                op["n"] = rng.randint(1, 4)
                if s2.cfg:
                    op["cfgs"] = [dict(c) for c in s2.cfg]
                if rng.random() < 0.6:
                    pts, thex, layout = tmp.request_points(s2, n=rng.choice([1, 3]))
                    op["use"] = {"pts": enc(pts), "t": thex}
                self.ops.append(op)
        elif r < cfg["p_recall"] + cfg["p_scribble"] + cfg["p_drop"] + cfg["p_churn"] + cfg["p_dump"] and self.sols:
            self.ops.append({"op": "dump", "c": client, "sol": rng.choice(self.sols[-6:]), "dev": "sim", "bufsize": rng.choice([1, 16, 64, 8192])})
        else:
            # a call with another pool entry's region now and then (different time/region, same object)
            pts, thex, layout = self.request_points(st)
            self.call_op(client, st, pts, thex, layout)


BASE_CFG = dict(p_new=0.22, max_objs=4, same_module=0.55, p_badnew=0.08, p_share=0.15, p_recall=0.28,
                p_scribble=0.08, p_drop=0.05, p_churn=0.04, p_dump=0.0, share_eos=0.5, share_ic=0.5, explicit_ic=0.4,
                bb_setters=0.45, plain_container=0.6, refill=0.3, grid_change=0.3)


def swarm_config(rng, tier, prop):
    cfg = dict(BASE_CFG)
    cfg["n_clients"] = rng.choice([1, 2, 2, 3, 4])
    cfg["n_fams"] = rng.choice([1, 1, 2, 2, 3, 4])
    cfg["length"] = rng.randint(4, 40 if tier == "quick" else 60)
    cfg["n_choices"] = rng.choice([[1, 2, 3], [3, 5, 7], [5, 7, 12], [7, 12, 40], N_CHOICES])
    cfg["long_session"] = rng.random() < 0.025     # many operations on cheap families: thresholds, evictions, growth
    if cfg["long_session"]:
        cfg["length"] = rng.randint(150, 320)
        cfg["n_choices"] = [1, 2, 3, 5]
    cfg["big_requests"] = rng.random() < 0.04      # request-length thresholds (vectorised paths, chunking)
    if cfg["big_requests"]:
        cfg["n_choices"] = [3, 130, 1030]
    # swarm: switch whole behaviours off per run
    for k in ("p_scribble", "p_drop", "p_churn", "p_share", "p_badnew"):
        if rng.random() < 0.35:
            cfg[k] = 0.0
    cfg["plain_container"] = rng.choice([1.0, 0.6, 0.2])
    cfg["refill"] = rng.choice([0.0, 0.3, 0.7])
    # fault configuration
    mode = rng.random()
    if mode < 0.34:
        cfg["fault_kinds"] = []
        cfg["fault_rate"] = 0.0
    else:
        k = rng.randint(1, 4)
        cfg["fault_kinds"] = sorted(rng.sample(["dep", "abort", "devnull", "nofile", "alloc", "oom"], k))
        cfg["fault_rate"] = rng.choice([1 / 20., 1 / 6.])
    return cfg


def place_intents(rng, ops, kinds, rate):
    """Fault intents: which operations get a fault, and an ordered preference of fault kinds; the kind actually
    injected is the first one the operation offers a site for (known from the fault-free profile).  Biased towards
    the first evaluation after a construction, where lazily initialised state is being built."""
    cand = [k for k in kinds if k in ("dep", "abort", "devnull", "oom")]
    intents = []
    if not cand or rate <= 0:
        return intents
    called = set()
    for i, op in enumerate(ops):
        if op["op"] not in ("new", "call", "cfg") or op.get("expect"):
            continue
        r = rate
        if op["op"] == "call" and op["obj"] not in called:
            r = min(1.0, 2.5 * rate)
        if op["op"] == "call":
            called.add(op["obj"])
        if rng.random() < r:
            order = list(cand)
            rng.shuffle(order)
            if "dep" in order and rng.random() < 0.6:      # a dependency failure where the operation offers one
                order.remove("dep")
                order.insert(0, "dep")
            u = rng.random()
            r2 = rng.random()
            if r2 < 0.35:
                u = u * u * u      # early in the operation: where module globals and per-object attributes are being written
            elif r2 < 0.5:
                u = 1.0 - u * u * u   # late: between the last state update and the return
            intents.append({"step": i, "kinds": order, "u": fhex(u), "mode": rng.choice(["before", "before", "after"]),
                            "exc": rng.choice(["RuntimeError", "ValueError", "RuntimeError", "ValueError", "ZeroDivisionError", "FloatingPointError", "OverflowError"])})
    return intents


def pick_families(rng, fams, n, prop):
    ws = [f.weight for f in fams]
    chosen = []
    while len(chosen) < n and len(chosen) < len(fams):
        f = rng.choices(fams, weights=ws)[0]
        if f not in chosen:
            chosen.append(f)
    return chosen


def append_canaries(g, rng):
    """A fixed block of cheap operations on other solvers, appended to every C06 run: calls that legitimately pass
    through inf/nan, emit a warning, or print -- so that a process-wide setting some earlier operation left changed
    (numpy error state, warning filters, a redirected or closed stdout) turns into a value or an exception that
    differs from the fresh interpreter's.  They are ordinary operations of the property's quantifier, judged by H1."""
    np = world.np
    plan = [("exactpack.solvers.noh.noh1.SphericalNoh", {}, np.array([0.0, 0.3]), 0.6),
            ("exactpack.solvers.blake.blake.Blake", {"pressure_scale": 5.0e9}, np.array([0.1, 0.5]), 1.6e-4),
            ("exactpack.solvers.cog.cog8.Cog8", {}, np.array([0.0, 0.5]), 0.0)]
    for qual, kw, pts, t in plan:
        if qual not in world.CENSUS:
            continue
        fam = T.family_of(qual)
        oid = "S%d" % (len(g.objs) + 1)
        op = {"op": "new", "c": 99, "obj": oid, "cls": qual, "kw": enc(kw), "fam": fam.name if fam else "", "pi": -1, "canary": True}
        g.ops.append(op)
        st = ObjState(oid, qual, fam, 0, op, 99)
        g.objs.append(st)
        g.nbuf += 1
        g.nsol += 1
        g.ops.append({"op": "call", "c": 99, "obj": oid, "buf": "B%d" % g.nbuf, "pts": enc(pts), "cont": "nd", "t": fhex(t),
                      "sol": "R%d" % g.nsol, "layout": "N", "fam": fam.name if fam else "", "canary": True})


def make_run(seed, tier, index, prop="C06"):
    """One seeded swarm run: returns the spec (ops + fault intents + run-level settings)."""
    world.load()
    rng = random.Random(h64(seed, tier, index, prop))
    fams = tier_families(tier, prop)
    cfg = swarm_config(rng, tier, prop)
    if cfg.get("long_session") or cfg.get("big_requests"):
        fams = [f for f in fams if f.cost == "cheap"] or fams
    chosen = pick_families(rng, fams, cfg["n_fams"], prop)
    g = Gen(rng, fams, cfg)
    clients = list(range(cfg["n_clients"]))
    fam_of_client = {c: (chosen if rng.random() < 0.5 else [rng.choice(chosen)]) for c in clients}
    guard = 0
    while len(g.ops) < cfg["length"] and guard < 10 * cfg["length"]:
        guard += 1
        c = rng.choice(clients)
        g.client_step(c, fam_of_client[c])
    n_workload = len(g.ops)
    append_canaries(g, rng)
    run = {}
    kinds = cfg["fault_kinds"]
    if "alloc" in kinds:
        run["alloc"] = fhex(rng.choice(ALLOC_PATTERNS[1:]))
    if "nofile" in kinds:
        run["nofile_extra"] = rng.randint(3, 8)
    intents = place_intents(rng, g.ops[:n_workload], kinds, cfg["fault_rate"])
    spec = {"seed": seed, "tier": tier, "index": index, "prop": prop, "kind": "swarm",
            "config": {k: v for k, v in cfg.items() if k != "n_choices"},
            "families": [f.name for f in chosen], "run": run, "ops": g.ops, "intents": intents, "faults": []}
    return spec


# ---------------------------------------------------------------------------------------------
# cornerstone schedules: short, systematic scenarios; only points/times/containers are seeded
# ---------------------------------------------------------------------------------------------
VARIANTS = ["plain", "b_between", "b_fails", "a_aborted", "b_aborted", "a_retry"]


def cornerstone_list(tier):
    """[(family name, p, q, variant)] in a fixed order."""
    world.load()
    out = []
    for f in T.FAMILIES.values():
        if not _enabled(f, tier):
            continue
        n = len(f.pool)
        pairs = [(p, q) for p in range(n) for q in range(n)]
        cap = 16 if f.cost != "cheap" else 40
        is_cog = f.name.startswith("cog")
        if is_cog:
            cap = 10      # twenty structurally identical closed-form modules: a smaller share each
        plain_only = []
        if len(pairs) > cap:
            # the informative pairs first: parameter sets that differ in exactly one parameter (a cache keyed on too few
            # parameters is visible only there), then the diagonal (same parameters, two objects), then a strided rest
            def ndiff(pq):
                a, b = f.pool[pq[0]].kwargs, f.pool[pq[1]].kwargs
                return sum(1 for k in set(a) | set(b) if repr(a.get(k, "<default>")) != repr(b.get(k, "<default>")))
            one = [pq for pq in pairs if ndiff(pq) == 1]
            diag = [pq for pq in pairs if pq[0] == pq[1]]
            rest = [pq for pq in pairs if pq not in one and pq not in diag]
            chosen = []
            for pq in one:
                if len(chosen) >= (cap * 3) // 4:
                    break
                for d in (pq, (pq[1], pq[0])):
                    if d not in chosen:
                        chosen.append(d)
            for pq in diag:
                if len(chosen) >= (cap * 7) // 8:
                    break
                if pq not in chosen:
                    chosen.append(pq)
            k = 0
            while len(chosen) < cap and rest:
                step = max(1, len(rest) // max(1, cap - len(chosen)))
                pq = rest[(k * step) % len(rest)]
                if pq not in chosen:
                    chosen.append(pq)
                k += 1
                if k > 4 * cap:
                    break
            pairs = chosen
            # beyond the cap, with the plain variant only: every parameter set next to the family's first one, both ways
            # (one parameter forgotten in a cache key must meet its one-difference partner whatever the pool size)
            plain_only = [d for pq in one if 0 in pq for d in (pq, (pq[1], pq[0])) if d not in chosen]
        for (p, q) in pairs:
            for v in VARIANTS:
                if f.cost != "cheap" and v in ("b_fails",):
                    continue
                if v == "a_retry" and (p + q) % 2:
                    continue        # half of the pairs: the retry scenario is about A alone
                if is_cog and v in ("b_fails", "a_retry"):
                    continue
                out.append((f.name, p, q, v))
        if len(f.pool) ** 2 > cap:
            seen_plain = set()
            for (p, q) in plain_only:
                if (p, q) not in seen_plain:
                    seen_plain.add((p, q))
                    out.append((f.name, p, q, "plain"))
        for p in range(n):
            out.append((f.name, p, p, "two_times"))   # every parameter set: one object used at two times, then a fresh twin
        out.append((f.name, 0, 0, "sweep"))            # a parameter sweep: more distinct parameter sets than a bounded cache holds
    # cross-family pairs inside one package: families that share a Python package share modules, base classes and
    # module-level state (radshocks' function table, Rod1D's class body behind the planar sandwiches, ep_riemann/utils)
    by_pkg = {}
    for f in T.FAMILIES.values():
        if not _enabled(f, tier):
            continue
        pkg = f.classes[0].split(".")[0]
        by_pkg.setdefault(pkg, []).append(f)
    for pkg, fams in sorted(by_pkg.items()):
        if len(fams) < 2:
            continue
        combos = [(0, 0)] if len(fams) > 4 else [(0, 0), (0, 1), (1, 0), (1, 1)]
        for ia, fa in enumerate(fams):
            for ib, fb in enumerate(fams):
                if fa is fb:
                    continue
                if len(fams) > 12 and (ia + ib) % 3:
                    continue      # the cog package: a third of the ordered module pairs
                for (p, q) in combos:
                    if p >= len(fa.pool) or q >= len(fb.pool):
                        continue
                    for v in (("plain", "b_between") if len(fams) > 4 else ("plain", "b_between", "a_aborted")):
                        out.append((fa.name, p, q, v, fb.name))
    return out


def make_cornerstone(seed, tier, k, prop="C06"):
    world.load()
    lst = cornerstone_list(tier)
    entry = lst[k % len(lst)]
    fname, p, q, variant = entry[:4]
    fam = T.FAMILIES[fname]
    fam_b = T.FAMILIES[entry[4]] if len(entry) > 4 else fam
    rng = random.Random(h64(seed, tier, "corner", k))
    if variant == "sweep":
        return make_sweep(seed, tier, k, fam, rng, prop)
    cfg = dict(BASE_CFG)
    cfg.update(n_choices=[3, 5, 7], share_eos=0.5, share_ic=0.5, plain_container=0.7, refill=0.0, bb_setters=0.5)
    g = Gen(rng, [fam, fam_b], cfg)
    base = "exactpack.solvers." + fam.classes[0]
    # wrappers restrict the usable pool; use the base class whenever it accepts the entry
    a = g.new_op(0, fam, qual=_qual_for(fam, p), pi=p)
    intents = []
    # the base requests of a cornerstone are generic in-region points at the parameter set's own time in most sessions
    # (a session whose every call is refused for an out-of-region point shows nothing); special and non-finite points come
    # in through the re-requests, and in the remaining sessions through the base request itself
    base_generic = variant in ("two_times", "a_retry", "b_aborted") or rng.random() < 0.6
    if variant == "b_fails":
        b = g.new_op(1, fam_b, qual=_qual_for(fam_b, q), pi=q, bad="unknown")
    elif variant == "b_between":
        pa, ta, la = g.request_points(a, generic=base_generic)
        g.call_op(0, a, pa, ta, la)
        b = g.new_op(1, fam_b, qual=_qual_for(fam_b, q), pi=q)
    else:
        b = g.new_op(1, fam_b, qual=_qual_for(fam_b, q), pi=q)
    if variant != "b_between":
        pa, ta, la = g.request_points(a, generic=base_generic)
        first = g.call_op(0, a, pa, ta, la)
        if variant == "a_aborted":
            intents.append({"step": len(g.ops) - 1, "kinds": ["abort"], "u": fhex(rng.random()), "mode": "before", "exc": "RuntimeError"})
    if b is not None and b.alive:
        pb, tb, lb = g.request_points(b, generic=base_generic)
        g.call_op(1, b, pb, tb, lb)
        if variant == "b_aborted":
            # B's call fails part-way (dependency failure, abort or allocation failure) between two calls of A
            intents.append({"step": len(g.ops) - 1, "kinds": rng.sample(["dep", "abort", "oom"], 3), "u": fhex(rng.random() ** 2),
                            "mode": "before", "exc": rng.choice(["RuntimeError", "ValueError"])})
    g.call_op(0, a, pa, ta, la)
    if variant in ("plain", "two_times") and fam.gran not in ("mesh", "mader") and not getattr(fam.pool[a.pi].pts, "fixed_n", False):
        # the same points with one non-finite coordinate among them: the one input no comparison mask catches, so whatever
        # a solver leaves unwritten for it shows under a dirty allocation pattern
        np_ = world.np
        if la == "2N":
            bad_pts = np_.concatenate([pa, np_.array([[float("nan")], [pa[1, 0]]])], axis=1)
        elif pa.ndim == 1:
            bad_pts = np_.concatenate([pa, [float("nan")]])
        else:
            row = pa[0].copy()
            row[0] = float("nan")
            bad_pts = np_.concatenate([pa, [row]], axis=0)
        g.call_op(0, a, bad_pts, ta, la, cont="nd")
    if variant == "two_times":
        ps_a = fam.pool[a.pi]
        other = [t for t in ps_a.times if fhex(t) != ta]
        t2 = fhex(other[0]) if other else fhex(float.fromhex(ta) * 0.5 if float.fromhex(ta) != 0 else 0.25)
        g.call_op(0, a, pa, t2, la)
        g.call_op(0, a, pa, ta, la)
        g.call_op(0, a, pa, t2, la)
        # ... and at times nearly equal to the ones already used (a "did the time change?" test with a tolerance)
        g.call_op(0, a, pa, fhex(float.fromhex(ta) * (1.0 + 2.0 ** -20)), la)
        g.call_op(0, a, pa, fhex(float.fromhex(t2) * (1.0 - 2.0 ** -36)), la)
        if fam.gran not in ("mesh", "mader") and not getattr(fam.pool[a.pi].pts, "fixed_n", False):
            # the same points inside a request of more than a hundred (a size threshold, a vectorised or chunked path)
            big, _, _ = g.request_points(a, n=130, v=3)
            axis_b = 1 if la == "2N" else 0
            g.call_op(0, a, world.np.concatenate([pa, big], axis=axis_b), ta, la, cont="nd")
        if a.fam.name in ("sdrz", "radshock_ned", "radshock_ie"):
            g.aux_op(0, a)
            g.call_op(0, a, pa, ta, la)
    if variant == "a_retry":
        # a solution for one time exists; a call at a NEW time is interrupted; the caller retries at that new time
        t_new = fhex(float.fromhex(ta) * 0.5 if float.fromhex(ta) != 0 else 0.25)
        ps_a = fam.pool[a.pi]
        other = [t for t in ps_a.times if fhex(t) != ta]
        if other:
            t_new = fhex(other[0])
        g.call_op(0, a, pa, t_new, la)
        intents.append({"step": len(g.ops) - 1, "kinds": ["abort", "dep"], "u": fhex(rng.random()), "mode": "before", "exc": "RuntimeError"})
        g.call_op(0, a, pa, t_new, la)
        g.call_op(0, a, pa, ta, la)
    if a.requests:
        g.recall(0, a)
    a2 = g.new_op(0, fam, qual=a.qual, pi=p)
    g.call_op(0, a2, pa, ta, la)
    if b is not None and b.alive:
        g.call_op(1, b, pb, tb, lb)
    append_canaries(g, rng)
    run = {}
    if rng.random() < 0.5:
        run["alloc"] = fhex(rng.choice(ALLOC_PATTERNS[1:]))     # dirty allocation (F7) in half of the cornerstone runs
    spec = {"seed": seed, "tier": tier, "index": k, "prop": prop, "kind": "cornerstone",
            "config": {"family": fname, "family_b": fam_b.name, "p": p, "q": q, "variant": variant},
            "families": sorted({fname, fam_b.name}), "run": run, "ops": g.ops, "intents": intents, "faults": []}
    return spec


def sweep_parameter(fam):
    """The float parameter a sweep varies: the first one-at-a-time variant of the family that is a float (validated when
    auto_pool.json was generated), so that most of the swept sets construct."""
    base = fam.pool[0].kwargs
    for ps in fam.pool:
        if ps.note.startswith("auto:") and not ps.note.startswith(("auto:geometry", "auto:near")):
            p = ps.note[5:].rstrip("-")
            v = ps.kwargs.get(p)
            if isinstance(v, float) and not isinstance(v, bool) and v != 0.0:
                d = v / 1.07
                return p, d
    return None, None


def make_sweep(seed, tier, k, fam, rng, prop):
    """One family, many distinct parameter sets in one process (a gamma sweep, a convergence study), then the early ones
    again: a bounded cache or table is only ever seen full, recycled or evicted here."""
    cfg = dict(BASE_CFG)
    cfg.update(n_choices=[2, 3], share_eos=0.0, share_ic=0.0, plain_container=1.0, refill=0.0, bb_setters=0.0,
               special_pts=0.0, nonfinite_pts=0.0, odd_time=0.0, near_time=0.0)
    g = Gen(rng, [fam], cfg)
    if fam.name == "nohblackbox":
        return make_bb_sweep(seed, tier, k, fam, rng, prop, g)
    qual = _qual_for(fam, 0)
    p, d = sweep_parameter(fam)
    n = 0 if p is None else (140 if fam.cost == "cheap" else 20)
    first = g.new_op(0, fam, qual=qual, pi=0)
    objs = [first]
    pts, thex, layout = g.request_points(first, n=2, v=0)
    g.call_op(0, first, pts, thex, layout, cont="nd")
    for i in range(1, n + 1):
        st = g.new_op(0, fam, qual=qual, pi=0)
        if st is None:
            break
        kw = dict(fam.pool[0].kwargs)
        kw[p] = d * (1.0 + 0.0113 * i)
        st.new_op["kw"] = enc(kw)
        objs.append(st)
        g.call_op(0, st, pts, thex, layout, cont="nd")
        if i % 8 == 0:
            victim = objs[rng.randrange(1, len(objs) - 1)] if len(objs) > 2 else None
            if victim is not None and victim.alive and rng.random() < 0.5:
                victim.alive = False
                g.ops.append({"op": "drop", "c": 0, "obj": victim.oid})
    for st in objs[:4]:
        if st.alive:
            g.call_op(0, st, pts, thex, layout, cont="nd")
    twin = g.new_op(0, fam, qual=qual, pi=0)
    if twin is not None:
        g.call_op(0, twin, pts, thex, layout, cont="nd")
        if len(objs) > 1:
            twin2 = g.new_op(0, fam, qual=qual, pi=0)
            twin2.new_op["kw"] = objs[1].new_op["kw"]
            g.call_op(0, twin2, pts, thex, layout, cont="nd")
    append_canaries(g, rng)
    return {"seed": seed, "tier": tier, "index": k, "prop": prop, "kind": "cornerstone",
            "config": {"family": fam.name, "variant": "sweep", "parameter": p, "sets": n},
            "families": [fam.name], "run": {}, "ops": g.ops, "intents": [], "faults": []}


def make_bb_sweep(seed, tier, k, fam, rng, prop, g):
    """Black-box Noh: a sweep over short-lived solver and EOS objects (for gamma in gammas: Solver(ideal_gas_eos(gamma))(r, t)),
    each released before the next is built: whatever a solver keyed on a dead EOS object meets the next EOS at that address."""
    quals = ["exactpack.solvers." + c for c in fam.classes]
    pts = fam.pool[0].pts.gen(2, 0)
    thex = fhex(fam.pool[0].times[0])
    for i in range(48):
        gam = 1.2 + 0.037 * i
        geo = (i % 3) + 1
        qual = quals[geo]       # Planar / Cylindrical / Spherical wrapper
        oid = "S%d" % (len(g.objs) + 1)
        g.neos += 1
        op = {"op": "new", "c": 0, "obj": oid, "cls": qual, "kw": enc({}), "fam": fam.name, "pi": 0,
              "eos": {"cls": "ideal_gas_eos", "args": enc([gam]), "id": "E%d" % g.neos}}
        g.ops.append(op)
        st = ObjState(oid, qual, fam, 0, op, 0)
        g.objs.append(st)
        c = {"op": "cfg", "c": 0, "obj": oid, "m": "set_new_solver_initial_guess", "a": enc([list(T._GUESS[geo])])}
        g.ops.append(c)
        st.cfg.append(c)
        g.call_op(0, st, pts, thex, "N", cont="nd")
        if i % 5 != 4:
            st.alive = False
            g.ops.append({"op": "drop", "c": 0, "obj": oid})
    append_canaries(g, rng)
    return {"seed": seed, "tier": tier, "index": k, "prop": prop, "kind": "cornerstone",
            "config": {"family": fam.name, "variant": "sweep", "parameter": "eos gamma", "sets": 48},
            "families": [fam.name], "run": {}, "ops": g.ops, "intents": [], "faults": []}


def _qual_for(fam, pi):
    """A class of the family that accepts pool entry pi (base class first)."""
    for c in fam.classes:
        q = "exactpack.solvers." + c
        if q not in world.CENSUS:
            continue
        _, usable = T.pool_for(q, world.CENSUS[q])
        if any(u[0] == pi for u in usable):
            return q
    return "exactpack.solvers." + fam.classes[0]


def resolve_faults(spec, profile):
    """Turn fault intents into explicit faults using the fault-free profile (seam calls / line events /
    devnull opens per step): the first kind in the intent's preference order that has a site in that operation."""
    faults = []
    for it in spec.get("intents", []):
        i = it["step"]
        rec = profile[i]
        u = float.fromhex(it["u"])
        for kind in it.get("kinds") or [it.get("kind")]:
            if kind == "dep":
                n = rec.get("deps", 0)
                if n <= 0:
                    continue
                faults.append({"step": i, "kind": "dep", "k": 1 + int(u * n) if n > 1 else 1, "mode": it["mode"], "exc": it["exc"]})
                break
            if kind == "abort":
                n = rec.get("lines", 0)
                if n <= 0:
                    continue
                faults.append({"step": i, "kind": "abort", "at": 1 + int(u * n)})
                break
            if kind == "devnull":
                if rec.get("devnull_opens", 0) <= 0:
                    continue
                faults.append({"step": i, "kind": "devnull"})
                break
            if kind == "oom":
                n = rec.get("allocs", 0)
                if n <= 0:
                    continue
                faults.append({"step": i, "kind": "oom", "k": 1 + int(u * n) if n > 1 else 1})
                break
    return faults


# ---------------------------------------------------------------------------------------------
# C05: conformance client walking the census, interleaved with background clients
# ---------------------------------------------------------------------------------------------
STREAM_PLANS = [
    {"fail_open": True, "errno": "EMFILE"}, {"fail_open": True, "errno": "ENOSPC"}, {"fail_open": True, "errno": "EACCES"},
    {"fail_at_byte": 0, "errno": "ENOSPC"}, {"fail_at_byte": 1, "errno": "ENOSPC"}, {"fail_at_byte": 17, "errno": "ENOSPC"},
    {"fail_at_byte": 100, "errno": "ENOSPC"}, {"fail_at_byte": 1000, "errno": "ENOSPC"}, {"fail_at_byte": 5000, "errno": "EIO"},
    {"fail_write_call": 1, "errno": "EIO"}, {"fail_write_call": 2, "errno": "EIO"}, {"fail_write_call": 5, "errno": "ENOSPC"},
    {"fail_close": True, "errno": "EIO"}, {"fail_close": True, "errno": "ENOSPC"},
    {"short": 1}, {"short": 7}, {"short": 7, "fail_at_byte": 200, "errno": "ENOSPC"}, {"short": 3, "fail_close": True, "errno": "EIO"},
    {"fail_at_byte": 64, "errno": "EPIPE"}, {"fail_write_call": 2, "errno": "EPIPE"}, {"fail_at_byte": 1024, "errno": "EPIPE"},
    {"fail_at_byte": 300, "errno": "EDQUOT"}, {"fail_write_call": 1, "errno": "EROFS"}, {"fail_at_byte": 2000, "errno": "EFBIG"},
    {"fail_close": True, "errno": "EDQUOT"}, {"fail_open": True, "errno": "EROFS"}, {"fail_at_byte": 10, "errno": "ENOMEM"},
]
PROBE_QUAL = "verif.probe.ProbeSolver"
PROBE_VALUES_QUAL = "verif.probe.ProbeValues"


def unknown_names(cls):
    """Names that are NOT parameters of cls (sorted, deterministic): junk, public data attributes of the class that are
    not parameters (e.g. the fixed 'geometry' of a wrapper), parameter names common elsewhere, near-miss spellings."""
    params = set(cls.parameters)
    out = ["zzz_unknown_parameter"]
    for a in sorted(dir(cls)):
        if a.startswith("_") or a in params or a == "verbose":
            continue
        try:
            v = getattr(cls, a)
        except Exception:
            continue
        if not callable(v):
            out.append(a)
    out += [n for n in COMMON_NAMES if n not in params and n not in out]
    for p in sorted(params):
        for cand in (p.upper(), p.lower(), p + "_", "_" + p, "__" + p, p.capitalize()):
            if cand not in params and cand not in out and cand != "verbose":
                out.append(cand)
    return out


def dec_kw(kw):
    from .codec import dec
    return dec(kw)


def fixed_n_family(fam):
    return any(getattr(ps.pts, "fixed_n", False) for ps in fam.pool)


def missing_variants(cls, kw0, m):
    """Constructor keyword sets that all leave out the default-less parameter m: the bare pool entry, every other
    parameter given explicitly (at its default), and each other parameter given alone."""
    base = {k: v for k, v in kw0.items() if k != m}
    out = [dict(base)]
    defaults = {p: getattr(cls, p) for p in sorted(cls.parameters) if p != m and hasattr(cls, p)
                and isinstance(getattr(cls, p), (int, float)) and not isinstance(getattr(cls, p), bool)}
    full = dict(defaults)
    full.update(base)
    out.append(full)
    for p, v in defaults.items():
        one = dict(base)
        one[p] = v
        out.append(one)
    return out


def missing_params(cls):
    return [p for p in cls.parameters if not hasattr(cls, p)]


def c05_census(tier, sweep=False):
    out = []
    for q in sorted(world.CENSUS):
        if not q.startswith("exactpack."):
            continue
        fam = T.family_of(q)
        if fam is None or fam.internal:
            continue
        if not _enabled(fam, tier) and not (sweep and ONLY is None and fam.cost == "heavy"):
            continue      # the constructor sweep includes the heavy classes in every tier: bad constructors cost nothing
        out.append(q)
    return out


def conformance(g, client, qual, rng, tier):
    """Generator: appends the conformance script of one class visit to g.ops, yielding between operations."""
    cls = world.CENSUS[qual]
    fam, usable = T.pool_for(qual, cls)
    if fam is None or not usable:
        return
    # I9: unknown keyword, then (where a parameter has no default) a constructor without it
    st = g.new_op(client, fam, qual=qual, bad="unknown")
    if st is not None:
        g.ops[-1]["expect"] = "ValueError"
        if rng.random() < 0.3:
            # the same unknown name together with the documented verbose flag: still a ValueError
            kwv = dec_kw(g.ops[-1]["kw"])
            kwv["verbose"] = True
            g.ops[-1]["kw"] = enc(kwv)
    yield
    miss = missing_params(cls)
    if miss and fam.name != "blake":
        pi, kw = usable[0]
        kw = rng.choice(missing_variants(cls, {k: v for k, v in kw.items() if k not in miss}, miss[0]))
        kw = {k: v for k, v in kw.items() if k not in miss}
        oid = "S%d" % (len(g.objs) + 1)
        op = {"op": "new", "c": client, "obj": oid, "cls": qual, "kw": enc(kw), "fam": fam.name, "pi": pi, "expect": "ValueError", "missing": miss}
        g.ops.append(op)
        dead = ObjState(oid, qual, fam, pi, op, client)
        dead.alive = False
        g.objs.append(dead)
        yield
    st = g.new_op(client, fam, qual=qual, pi=rng.choice(usable)[0])
    if st is None:
        return
    yield
    fixed_n = getattr(fam.pool[st.pi].pts, "fixed_n", False)
    if not fixed_n and fam.gran not in ("mesh", "ep_piston", "mader"):
        # any N >= 1: one request of generic in-region points at the pool entry's own time, and sub-requests made of its
        # first k points; if the full request is served, every sub-request must be served too (a request must not be
        # refused because of how many of its points were asked for)
        gp, t_generic, gl = g.request_points(st, n=40, v=rng.randrange(8), generic=True)
        ax = 1 if gl == "2N" else 0
        sizes = [1, 2, 3, 7]
        rng.shuffle(sizes)
        order = [40] + sizes[:2]
        rng.shuffle(order)
        for nn in order:
            sub = world.np.take(gp, range(nn), axis=ax)
            op = g.call_op(client, st, sub, t_generic, gl, cont="nd")
            op["generic"] = nn
            yield
    n = rng.choice([1, 2, 3, 7, 40])
    if fam.cost == "cheap" and not fixed_n_family(fam) and rng.random() < 0.06:
        n = rng.choice([300, 1500])      # more records than any buffer chunk or row batch
    pts, thex, layout = g.request_points(st, n=n)
    if fam.gran not in ("mader", "mesh") and rng.random() < 0.3:
        # duplicated points: N records all the same, in the order given
        ax = 1 if layout == "2N" else 0
        k = pts.shape[ax]
        idx = list(range(k)) + [rng.randrange(k) for _ in range(rng.randint(1, 3))]
        pts = world.np.take(pts, idx, axis=ax)
    if fam.gran not in ("mader", "mesh") and rng.random() < 0.7:
        order = list(range(pts.shape[1 if layout == "2N" else 0]))
        rng.shuffle(order)      # "any ordering of points"
        pts = world.np.take(pts, order, axis=1 if layout == "2N" else 0)
    conts = list(containers_for(layout))
    if pts.ndim < 2:
        conts = [c for c in conts if c != "fortran"]
    rng.shuffle(conts)
    if "nd" in conts:   # the plain ndarray request first or last, never absent
        conts.remove("nd")
        conts.insert(rng.choice([0, len(conts)]), "nd")
    calls = []
    for cont in conts:
        op = g.call_op(client, st, pts, thex, layout, cont=cont)
        calls.append(op)
        yield
        r = rng.random()
        if r < 0.5:
            g.ops.append({"op": "dump", "c": client, "sol": op["sol"], "dev": "sim", "bufsize": rng.choice([1, 16, 64, 8192])})
            yield
        elif r < 0.62:
            # real file; sometimes twice to the same path (the second dump must overwrite, not append), sometimes over a stale file
            g.ops.append({"op": "dump", "c": client, "sol": op["sol"], "dev": "file", "leave": True, "keep_previous": rng.random() < 0.5})
            yield
            g.ops.append({"op": "dump", "c": client, "sol": op["sol"], "dev": "file"})
            yield
        elif r < 0.9:
            g.ops.append({"op": "dump", "c": client, "sol": op["sol"], "dev": "sim", "bufsize": rng.choice([1, 16, 64, 8192]),
                          "plan": enc(rng.choice(STREAM_PLANS))})
            yield
            g.ops.append({"op": "dump", "c": client, "sol": op["sol"], "dev": "sim", "bufsize": rng.choice([1, 16, 64, 8192])})
            yield
    # the owner scribbles on one of its inputs; the solution must stay what it was, and dump it again
    victim = rng.choice(calls)
    g.ops.append({"op": "scribble", "c": client, "target": victim["buf"], "mode": rng.choice(["junk", "nan", "zero"])})
    yield
    g.ops.append({"op": "dump", "c": client, "sol": victim["sol"], "dev": "sim", "bufsize": rng.choice([1, 64, 8192])})
    yield
    if not fixed_n and fam.gran != "mader":
        # back to back on this solver: a request, then the very same ndarray object refilled in place (x += dx) and asked
        # again at the same time -- a solver that remembered the caller's array compares it with itself
        first = g.call_op(client, st, pts, thex, layout, cont="nd")
        g.call_op(client, st, pts + 0.03125 * (1.0 + abs(pts)), thex, layout, cont="nd", buf=first["buf"])
        yield
    if victim.get("cont") in ("nd", "strided", "fortran") and not fixed_n and fam.gran != "mader":
        # ... then refills the very same ndarray object with other points (x += dx) and asks again, same time:
        # the positions returned must be the ones now in the array
        shifted = pts + 0.0625 * (1.0 + abs(pts))
        g.call_op(client, st, shifted, thex, layout, cont=victim["cont"], buf=victim["buf"])
        yield
    if not fixed_n:
        n2 = rng.choice([x for x in [1, 2, 3, 7, 40] if x != n])
        pts2, thex2, layout2 = g.request_points(st, n=n2)
        g.call_op(client, st, pts2, thex2, layout2, cont="nd")
        yield
    if not fixed_n and fam.gran not in ("mader", "mesh") and rng.random() < 0.3:
        # integer-valued points, written the natural way ([0, 1, 2] or np.arange): the same points as floats must give
        # the same solution (list, tuple and array inputs are equivalent)
        ipts = world.np.rint(pts * 2.0 + 1.0)
        ipts = world.np.where(world.np.isfinite(ipts), ipts, 0.0) + 0.0      # finite, and no negative zero (an int has none)
        ipts = world.np.clip(ipts, -1.0e6, 1.0e6)
        order_i = ["nd", "ilist", "iarr"]
        rng.shuffle(order_i)
        for cont in order_i:
            g.call_op(client, st, ipts, thex, layout, cont=cont)
            yield
    if rng.random() < 0.6:
        # a branch-selecting time (t <= 0): the call may raise, but whatever it returns must honour the contract
        g.call_op(client, st, pts, fhex(rng.choice(ODD_TIMES)), layout, cont=rng.choice(["nd", "list"]))
        yield


def make_c05_run(seed, tier, index):
    world.load()
    rng = random.Random(h64(seed, tier, index, "C05"))
    census = c05_census(tier)
    cfg = swarm_config(rng, tier, "C05")
    cfg["p_dump"] = 0.12
    cfg["length"] = rng.randint(0, 25)
    n_visit = rng.choice([1, 2, 2, 3])
    visits = [census[(index * 7 + j * 41) % len(census)] for j in range(n_visit)]
    if index % 9 == 4 and PROBE_QUAL in world.CENSUS:
        visits.append(PROBE_QUAL)
    if index % 5 == 2 and PROBE_VALUES_QUAL in world.CENSUS:
        visits.append(PROBE_VALUES_QUAL)
    fams = tier_families(tier, "C05")
    chosen = pick_families(rng, [f for f in fams if f.cost == "cheap" or rng.random() < 0.3], rng.choice([1, 2]), "C05")
    g = Gen(rng, fams, cfg)
    n_bg = rng.choice([0, 1, 1, 2])
    scripts = {}
    for j, q in enumerate(visits):
        scripts[100 + j] = conformance(g, 100 + j, q, rng, tier)
    bg_budget = cfg["length"]
    guard = 0
    while scripts and guard < 2000:
        guard += 1
        actors = sorted(scripts) + (list(range(n_bg)) if bg_budget > 0 else [])
        c = rng.choice(actors)
        if c >= 100:
            try:
                next(scripts[c])
            except StopIteration:
                del scripts[c]
        else:
            before = len(g.ops)
            g.client_step(c, chosen)
            bg_budget -= max(1, len(g.ops) - before)
    run = {}
    kinds = cfg["fault_kinds"]
    if "alloc" in kinds:
        run["alloc"] = fhex(rng.choice(ALLOC_PATTERNS[1:]))
    if "nofile" in kinds:
        run["nofile_extra"] = rng.randint(3, 8)
    intents = place_intents(rng, g.ops, kinds, cfg["fault_rate"] * 0.5)
    return {"seed": seed, "tier": tier, "index": index, "prop": "C05", "kind": "swarm",
            "config": {k: v for k, v in cfg.items() if k != "n_choices"}, "families": [f.name for f in chosen],
            "visits": visits, "run": run, "ops": g.ops, "intents": intents, "faults": []}


def make_c05_sweep(seed, tier, k):
    """C05 cornerstone k: one class, every candidate unknown name (and every default-less parameter left out),
    then a good constructor and one plain request -- a short, systematic session for the constructor clause."""
    world.load()
    census = c05_census(tier, sweep=True) + ([PROBE_QUAL] if PROBE_QUAL in world.CENSUS else [])
    qual = census[k % len(census)]
    cls = world.CENSUS[qual]
    fam, usable = T.pool_for(qual, cls)
    rng = random.Random(h64(seed, tier, "c05-sweep", k))
    cfg = dict(BASE_CFG, n_choices=[3, 7], bb_setters=0.0, plain_container=1.0, refill=0.0)
    g = Gen(rng, [fam], cfg)
    if usable:
        pi, kw0 = usable[0]
        for name in unknown_names(cls):
            st = g.new_op(100, fam, qual=qual, pi=pi, bad="unknown")
            if st is None:
                break
            op = g.ops[-1]
            kw = dict(kw0)
            kw[name] = UNKNOWN_VALUES[(len(g.ops)) % len(UNKNOWN_VALUES)]
            if rng.random() < 0.25:
                kw["verbose"] = True
            op["kw"] = enc(kw)
            op["expect"] = "ValueError"
        for m in missing_params(cls):
            if fam.name == "blake":
                break
            for kw in missing_variants(cls, kw0, m):
                oid = "S%d" % (len(g.objs) + 1)
                op = {"op": "new", "c": 100, "obj": oid, "cls": qual, "kw": enc(kw), "fam": fam.name, "pi": pi,
                      "expect": "ValueError", "missing": [m]}
                g.ops.append(op)
                dead = ObjState(oid, qual, fam, pi, op, 100)
                dead.alive = False
                g.objs.append(dead)
        if not (fam.cost == "heavy" and tier != "thorough"):
            st = g.new_op(100, fam, qual=qual, pi=pi)
            if st is not None:
                pts, thex, layout = g.request_points(st)
                g.call_op(100, st, pts, thex, layout, cont="nd")
    return {"seed": seed, "tier": tier, "index": k, "prop": "C05", "kind": "cornerstone", "config": {"class": qual},
            "families": [fam.name] if fam else [], "visits": [qual], "run": {}, "ops": g.ops, "intents": [], "faults": []}
