"""Minimisation of a failing run (DESIGN.md §2.3): drop clients -> ddmin over operations -> drop faults
and run-level settings -> simplify containers / point lists / parameters.  Every candidate is executed
through the ordinary runner; references come from the worker's memo.
"""
import copy

from . import runner
from . import world
from .codec import dec, enc


def explicit(spec, violation, resolved):
    """Freeze a spec: explicit faults only (those of the failing phase), no intents."""
    s = copy.deepcopy(spec)
    s["intents"] = []
    if violation.get("phase") == "faulted":
        s["faults"] = copy.deepcopy(violation.get("faults") or resolved or [])
    else:
        s["faults"] = []
    return s


def same_class(v, target):
    if v["inv"] != target["inv"]:
        return False
    if target.get("cls") not in (None, "?") and v.get("cls") != target.get("cls"):
        return False
    dk = (target.get("detail") or {}).get("kind")
    if dk is not None and (v.get("detail") or {}).get("kind") != dk:
        return False
    return True


def subset(spec, keep):
    """Spec restricted to the op indices in ``keep`` (sorted), with faults re-indexed and dangling refs removed."""
    keep = sorted(keep)
    ops = spec["ops"]
    # referential integrity: ops on objects whose 'new' is gone are dropped too
    news = {ops[i]["obj"] for i in keep if ops[i]["op"] == "new"}
    keep = [i for i in keep if ops[i]["op"] in ("new", "churn") or "obj" not in ops[i] or ops[i]["obj"] in news]
    remap = {old: new for new, old in enumerate(keep)}
    s = {k: v for k, v in spec.items() if k not in ("ops", "faults")}
    s["ops"] = [copy.deepcopy(ops[i]) for i in keep]
    s["faults"] = []
    for f in spec.get("faults", []):
        if f["step"] in remap:
            g = dict(f)
            g["step"] = remap[f["step"]]
            s["faults"].append(g)
    s["intents"] = []
    return s


class Shrinker(object):
    def __init__(self, judge, target, budget=200, wall=150.0):
        import time
        self.judge = judge
        self.target = target
        self.budget = budget
        self.tried = 0
        self.deadline = time.time() + wall      # minimisation is a service, not a verdict: bounded in candidates and in time

    def fails(self, spec):
        import time
        if self.tried >= self.budget or (self.tried > 0 and time.time() > self.deadline):
            return None
        self.tried += 1
        try:
            res = runner.run_spec(spec, self.judge)
        except (runner.Harness, world.ChildFailure):
            return None
        for v in res["violations"]:
            if same_class(v, self.target):
                return v
        return None

    def run(self, spec):
        best = spec
        v0 = self.fails(best)
        if v0 is None:
            return None, None
        last = v0
        # 1. drop whole clients
        clients = sorted({o.get("c", 0) for o in best["ops"]})
        for c in clients:
            if len({o.get("c", 0) for o in best["ops"]}) <= 1:
                break
            cand = subset(best, [i for i, o in enumerate(best["ops"]) if o.get("c", 0) != c])
            if cand["ops"]:
                v = self.fails(cand)
                if v:
                    best, last = cand, v
        # 2. ddmin over operations
        n = 2
        while len(best["ops"]) >= 2 and self.tried < self.budget:
            L = len(best["ops"])
            chunk = max(1, L // n)
            reduced = False
            for start in range(0, L, chunk):
                keep = [i for i in range(L) if not (start <= i < start + chunk)]
                if not keep:
                    continue
                cand = subset(best, keep)
                if len(cand["ops"]) >= L or not cand["ops"]:
                    continue
                v = self.fails(cand)
                if v:
                    best, last = cand, v
                    n = max(n - 1, 2)
                    reduced = True
                    break
            if not reduced:
                if chunk == 1:
                    break
                n = min(L, n * 2)
        # 3. drop faults and run-level settings
        for k in range(len(best.get("faults", [])) - 1, -1, -1):
            cand = copy.deepcopy(best)
            del cand["faults"][k]
            v = self.fails(cand)
            if v:
                best, last = cand, v
        for key in sorted(best.get("run", {}).keys()):
            cand = copy.deepcopy(best)
            del cand["run"][key]
            v = self.fails(cand)
            if v:
                best, last = cand, v
        # 4. simplify operations: plain containers, fewer points, default parameters
        for i in range(len(best["ops"])):
            op = best["ops"][i]
            if op["op"] == "call":
                if op.get("cont", "nd") != "nd":
                    cand = copy.deepcopy(best)
                    cand["ops"][i]["cont"] = "nd"
                    v = self.fails(cand)
                    if v:
                        best, last = cand, v
                pts = dec(best["ops"][i]["pts"])
                axis = 1 if best["ops"][i].get("layout") == "2N" else 0
                while pts.shape[axis] > 1 and self.tried < self.budget:
                    half = world.np.take(pts, range((pts.shape[axis] + 1) // 2), axis=axis)
                    cand = copy.deepcopy(best)
                    cand["ops"][i]["pts"] = enc(half)
                    v = self.fails(cand)
                    if not v:
                        break
                    best, last, pts = cand, v, half
            elif op["op"] == "new" and op.get("kw", {}).get("d") and not op.get("expect"):
                cand = copy.deepcopy(best)
                cand["ops"][i]["kw"] = {"d": []}
                v = self.fails(cand)
                if v:
                    best, last = cand, v
        return best, last
