"""MANIFEST.setup_cmd: nothing to build (pure Python); verify the offline toolchain is complete."""
import sys


def main():
    from sim.env import ensure_env, src_root
    ensure_env("sim.setup")
    import numpy, scipy  # noqa: F401
    import exactpack
    import os
    assert os.path.abspath(exactpack.__file__).startswith(src_root()), (exactpack.__file__, src_root())
    for d in ("evidence", "replays"):
        os.makedirs(os.path.join(os.path.dirname(os.path.dirname(os.path.abspath(__file__))), d), exist_ok=True)
    print("setup ok: python %s numpy %s scipy %s exactpack from %s" % (
        sys.version.split()[0], numpy.__version__, scipy.__version__, os.path.dirname(exactpack.__file__)))
    return 0


if __name__ == "__main__":
    sys.exit(main())
