"""One simulated run end to end: references, history (fault-free phase, then faulted phase), verdicts,
coverage record.  Runs inside a pool worker that is itself a pristine image; every history and every
reference executes in its own fork of that image.
"""
import hashlib
import time

from . import gen as GEN
from . import ops as OPS
from . import oracle as ORA
from . import world
from .codec import canon


class Harness(Exception):
    """Harness trouble: never a verdict."""


def exec_history(spec, want_state=False, timeout=900.0):
    res = world.infork(lambda: OPS.run_history(spec, want_state=want_state), timeout=timeout)
    if res[0] != "ok":
        raise Harness("history run raised in the executor: %s: %s\n%s" % (res[1], res[2], res[3] if len(res) > 3 else ""))
    return res[1]


def refs_for(spec):
    refs = {}
    for i, op in enumerate(spec["ops"]):
        if op["op"] in ("new", "call", "cfg", "aux"):
            m = ORA.mini_spec(spec, i)
            if m is not None:
                refs[i] = ORA.reference(m)
    return refs


def _out_digest(out):
    h = hashlib.sha256()
    h.update(repr(out).encode() if out[0] != "ok" or len(out) < 6 else b"")
    if out[0] == "ok" and len(out) >= 6:
        h.update(repr(out[1]).encode())
        for f in out[2]:
            h.update(f[0].encode() + repr(f[1]).encode() + f[2])
        h.update(out[3].encode())
    elif out[0] == "dump":
        h.update(repr(out[1]).encode() + (out[2] or b"<none>"))
    return h.hexdigest()[:16]


def event_log(spec, hist):
    """(seq, client, op descriptor, fault fired?, outcome digest) per step -- the run's observable trace."""
    rows = []
    for rec in hist["log"]:
        op = spec["ops"][rec["i"]]
        out = rec["out"]
        if out[0] == "exc":
            od = "exc:" + out[1]
        else:
            od = _out_digest(out)
        rows.append([rec["i"], op.get("c", 0), op["op"], op.get("obj", op.get("target", op.get("sol", ""))),
                     [list(map(str, f)) for f in rec["fired"]], od, [list(e) for e in rec["events"]]])
    return rows


def fingerprint(spec, hists):
    h = hashlib.sha256()
    h.update(canon(spec["ops"]).encode())
    for hist, faults in hists:
        h.update(canon(faults).encode())
        h.update(canon(event_log(spec, hist)).encode())
    return h.hexdigest()[:32]


def coverage_record(spec, hists):
    ops = spec["ops"]
    fam_of = {}
    pi_of = {}
    for o in ops:
        if o["op"] == "new":
            fam_of[o["obj"]] = o.get("fam", "")
            pi_of[o["obj"]] = o.get("pi", -1)
    seq = []
    for o in ops:
        oid = o.get("obj")
        seq.append((o.get("c", 0), fam_of.get(oid, o.get("fam", "")), o["op"], pi_of.get(oid, o.get("pi", -1))))
    sig = hashlib.sha256(repr(seq).encode()).hexdigest()[:20]
    live = set()
    max_live = 0
    adj_same_module = 0
    fam_pairs = set()
    pset_pairs = set()
    prev = None
    for o in ops:
        oid = o.get("obj")
        if o["op"] == "new":
            live.add(oid)
        elif o["op"] == "drop":
            live.discard(oid)
        max_live = max(max_live, len(live))
        if o["op"] in ("new", "call", "cfg") and oid in fam_of:
            cur = (oid, fam_of[oid], pi_of[oid])
            if prev is not None and prev[0] != cur[0]:
                fam_pairs.add((prev[1], cur[1]))
                if prev[1] == cur[1]:
                    adj_same_module += 1
                    pset_pairs.add((cur[1], prev[2], cur[2]))
            prev = cur
    kinds = {}
    for o in ops:
        kinds[o["op"]] = kinds.get(o["op"], 0) + 1
    fired = {}
    fired_where = {"in_ctor": 0, "in_call": 0, "in_cfg": 0}
    for hist, faults in hists:
        for rec in hist["log"]:
            for f in rec["fired"]:
                fired[f[0]] = fired.get(f[0], 0) + 1
                k = {"new": "in_ctor", "call": "in_call", "cfg": "in_cfg"}.get(ops[rec["i"]]["op"])
                if k:
                    fired_where[k] += 1
    classes = sorted({o["cls"] for o in ops if o["op"] == "new"})
    conts = {}
    for o in ops:
        if o["op"] == "call":
            conts[o.get("cont", "nd")] = conts.get(o.get("cont", "nd"), 0) + 1
    fams_used = sorted({o.get("fam") for o in ops if o.get("fam")})
    # "this rare condition was hit" probes (DESIGN.md §3.4); outcomes come from the first history of the run
    probes = {"call_after_failed_constructor_of_same_class": 0, "call_after_sibling_used_other_parameters": 0,
              "call_on_refilled_same_ndarray": 0, "call_after_fault_in_same_object": 0, "call_after_drop_of_a_sibling": 0}
    first_log = hists[0][0]["log"] if hists else []
    failed_cls = set()
    cls_of = {o["obj"]: o["cls"] for o in ops if o["op"] == "new"}
    last_pi_used = {}
    seen_buf = set()
    dropped_fams = set()
    faulted_objs = set()
    for hist, faults in hists[1:]:
        for rec in hist["log"]:
            if rec["fired"] and ops[rec["i"]].get("obj"):
                faulted_objs.add((id(hist), ops[rec["i"]]["obj"]))
    for i, o in enumerate(ops):
        out = first_log[i]["out"] if i < len(first_log) else ("?",)
        if o["op"] == "new" and out[0] == "exc":
            failed_cls.add(o["cls"])
        if o["op"] == "drop" and o.get("obj") in fam_of:
            dropped_fams.add(fam_of[o["obj"]])
        if o["op"] == "call":
            oid = o["obj"]
            if cls_of.get(oid) in failed_cls:
                probes["call_after_failed_constructor_of_same_class"] += 1
            f = fam_of.get(oid)
            if f in last_pi_used and last_pi_used[f][0] != oid and last_pi_used[f][1] != pi_of.get(oid):
                probes["call_after_sibling_used_other_parameters"] += 1
            last_pi_used[f] = (oid, pi_of.get(oid))
            if o["buf"] in seen_buf:
                probes["call_on_refilled_same_ndarray"] += 1
            seen_buf.add(o["buf"])
            if f in dropped_fams:
                probes["call_after_drop_of_a_sibling"] += 1
    for hist, faults in hists[1:]:
        hit = set()
        for rec in hist["log"]:
            o = ops[rec["i"]]
            if rec["fired"] and o.get("obj"):
                hit.add(o["obj"])
            elif o["op"] == "call" and o["obj"] in hit:
                probes["call_after_fault_in_same_object"] += 1
    return {"sig": sig, "nontrivial": bool(max_live >= 2 and adj_same_module >= 1), "max_live": max_live, "families": fams_used, "probes": probes,
            "fam_pairs": sorted(fam_pairs), "pset_pairs": sorted(pset_pairs), "op_kinds": kinds, "fired": fired,
            "fired_where": fired_where, "classes": classes, "containers": conts, "n_ops": len(ops),
            "run_faults": sorted(spec.get("run", {}).keys())}


def run_spec(spec, judge, want_state=False):
    """Execute one spec.  Returns a result record; raises Harness / ChildFailure on harness trouble."""
    t0 = time.time()
    refs = refs_for(spec)
    ref_wall = sum(r[1] for r in refs.values())
    timeout = 120.0 + 100.0 * ref_wall
    hists = []
    violations = []
    stats = {}
    explicit = list(spec.get("faults") or [])
    intents = list(spec.get("intents") or [])
    phases = []
    if explicit and not intents:
        phases.append(("faulted", explicit))
    else:
        phases.append(("plain", []))
    profile = None
    for name, faults in phases:
        s = dict(spec)
        s["faults"] = faults
        s["run"] = dict(spec.get("run", {}))
        if name == "plain" and intents:
            s["run"]["count_lines"] = sorted({it["step"] for it in intents if "abort" in (it.get("kinds") or [it.get("kind")])})
        try:
            hist = exec_history(s, want_state=want_state, timeout=timeout)
        except world.ChildFailure as e:
            if "timeout" in str(e):
                violations.append({"inv": "H6", "step": -1, "cls": "?", "fam": ",".join(spec.get("families", [])),
                                   "detail": {"kind": "hang", "timeout": timeout, "phase": name}})
                continue
            raise
        hists.append((hist, faults))
        v, st = judge(s, hist, refs)
        for x in v:
            x["phase"] = name
        violations.extend(v)
        for k, val in st.items():
            stats[k] = stats.get(k, 0) + val
        if name == "plain":
            profile = hist["log"]
    resolved = []
    if intents and profile is not None:
        resolved = GEN.resolve_faults(spec, profile)
        if resolved:
            s = dict(spec)
            s["faults"] = resolved
            try:
                hist = exec_history(s, want_state=False, timeout=timeout)
                hists.append((hist, resolved))
                v, st = judge(s, hist, refs)
                for x in v:
                    x["phase"] = "faulted"
                    x["faults"] = resolved
                violations.extend(v)
                for k, val in st.items():
                    stats[k] = stats.get(k, 0) + val
            except world.ChildFailure as e:
                if "timeout" in str(e):
                    violations.append({"inv": "H6", "step": -1, "cls": "?", "fam": ",".join(spec.get("families", [])),
                                       "detail": {"kind": "hang", "timeout": timeout, "phase": "faulted"}, "faults": resolved})
                else:
                    raise
    res = {"index": spec.get("index"), "kind": spec.get("kind"), "violations": violations, "stats": stats,
           "fingerprint": fingerprint(spec, hists), "cov": coverage_record(spec, hists), "resolved_faults": resolved,
           "wall": time.time() - t0, "ref_wall": ref_wall, "phases": len(hists),
           "tails": [h["tail"] for h, _ in hists]}
    return res
